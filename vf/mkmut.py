"""Create mutants/<ID>/<name>.patch from a search/replace on the scratch worktree.
usage: python vf/mkmut.py ID name relpath  (stdin: OLD\n@@@@\nNEW)"""
import os
import subprocess
import sys

HERE = os.path.dirname(os.path.dirname(os.path.abspath(__file__)))
WT = os.environ.get("VF_SCRATCH_WT", "/tmp/wt/scratch")


def main():
    pid, name, rel = sys.argv[1:4]
    old, new = sys.stdin.read().split("\n@@@@\n")
    new = new.rstrip("\n")
    old = old.rstrip("\n")
    if not os.path.isdir(WT):  # (a scratch worktree outside /repo and /verif; remove it with `git -C /repo worktree remove --force`)
        os.makedirs(os.path.dirname(WT), exist_ok=True)
        subprocess.check_call(["git", "-C", "/repo", "worktree", "add", "-q", "--detach", WT, "HEAD"])
        vfile = "/repo/spec_classes/_version.py"
        if os.path.exists(vfile):
            import shutil

            shutil.copy(vfile, os.path.join(WT, "spec_classes", "_version.py"))
    subprocess.check_call(["git", "-C", WT, "checkout", "-q", "--detach", subprocess.check_output(["git", "-C", "/repo", "rev-parse", "HEAD"], text=True).strip()])
    subprocess.check_call(["git", "-C", WT, "checkout", "--", "."])
    p = os.path.join(WT, rel)
    s = open(p).read()
    if s.count(old) != 1:
        print(f"ERROR: pattern occurs {s.count(old)} times", file=sys.stderr)
        return 1
    open(p, "w").write(s.replace(old, new))
    d = os.path.join(HERE, "mutants", pid)
    os.makedirs(d, exist_ok=True)
    diff = subprocess.check_output(["git", "-C", WT, "diff"], text=True)
    open(os.path.join(d, name + ".patch"), "w").write(diff)
    # does the repository's own suite still pass?
    env = dict(os.environ, PYTHONPATH=WT, PYTHONDONTWRITEBYTECODE="1")
    r = subprocess.run(["/venv/bin/python", "-m", "pytest", "-q", "-x", "-p", "no:cacheprovider"], cwd=WT, env=env, capture_output=True, text=True)
    tail = (r.stdout.strip().splitlines() or [""])[-1]
    subprocess.check_call(["git", "-C", WT, "checkout", "--", "."])
    print(f"{pid}/{name}: suite {'passes' if r.returncode == 0 else 'FAILS'} ({tail})")
    return 0


if __name__ == "__main__":
    sys.exit(main())
