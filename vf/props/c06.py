"""
C06 - element helpers edit list/dict/set attributes like the plain container operation.

Oracle: the plain Python operation (append / replace / insert at index; assign key; add; replace by
transformed value; remove by value, index or key) executed on a plain copy of the previous content;
all other elements and their order untouched; with_ creates a missing container; a missing target
raises IndexError, KeyError or ValueError. The by-index default is decided with the reference type
checker from the declared element type.
"""
from __future__ import annotations

import copy
import itertools

from hypothesis import strategies as st

from vf import grammar, model, ops, reftype
from vf.grammar import SINGULAR, elem_type, family
from vf.probe import reach
from vf.runner import run_given

ID = "C06"
LEVEL = "exploration"
RULE = (
    "cases = (class world, history reaching a container content, one element helper call). Generated part: Hypothesis worlds with List/Dict/Set of scalars, "
    "List/Dict of (keyed) spec classes, KeyedList/KeyedSet attributes, contents reached by prior element ops, every helper x addressing mode (_index/_insert, "
    "_by_index True/False/absent, key, value, keywords building/updating spec elements, bare-key promotion), indices in [-len-2, len+2]. Exhaustive part: every helper "
    "x mode on every content of length <= 3 over 3-value universes incl. falsy elements (0, '') for List[int], List[str], Dict[str,int], Set[int], Set[str]. "
    "Non-trivial = the container has >= 2 elements before the probe, or the probe addresses a falsy / negative / duplicate / boundary position; "
    "distinct = canonical JSON of the case."
)
ASSUMPTIONS = [
    "update_/transform_/without_ on a missing container are unconstrained (only with_ is specified to create it)",
    "mapping with_<item>(key) without a value, and with_<item>() without any argument for scalar elements, are unconstrained (docs silent)",
    "new spec elements built from keywords are compared with the class's own constructor result (C09 checks the constructor)",
    "a key (str) used to address a plain List[Keyed] is unconstrained; KeyedList accepts keys",
]
MISSING_TARGET = (IndexError, KeyError, ValueError)
PROFILE = dict(grammar.PROFILES["data_plain"], flags=False, invalidation=False, kinds={"list", "dict", "set", "keyedlist", "keyedset", "int", "str"}, max_attrs=5)


def _flags(k):
    return {n: v for n, v in k.items() if n in ("_index", "_insert", "_by_index", "_inplace", "_if")}, {n: v for n, v in k.items() if not n.startswith("_")}


def _prep_item(world, attr, item):
    how = world.prepare_kind(attr, item=True)
    if how and not hasattr(item, "__spec_class__"):
        return grammar.apply_preparer(how, item)
    return item


def _dup(world, T, seq):
    if T[0] not in ("keyedlist",):
        return False
    keys = [x.k for x in seq]
    return len(set(keys)) != len(keys)


def expected(world, cur, attr, op):
    """Returns ("ok", new_content) | ("raise", classes) | None (unconstrained)."""
    from spec_classes.types import MISSING

    T = world.attrs()[attr]["type"]
    E = elem_type(T)
    fam = family(T)
    verb = op["m"].split("_", 1)[0]
    flags, kw = _flags(op["k"])
    if "bogus" in kw:
        return None  # unknown keywords are rejected before anything happens: that is C17's oracle
    if any(ops.is_special(v) and v[0] == "$fn" and v[1] in ("existing", "keyless") for v in list(op["a"]) + list(kw.values())):
        return None  # identity-sensitive transform (depends on which copy of the element it is handed) / an element stripped of its key (C04's subject)
    if flags.get("_if") is False:
        return "same", None
    args = [ops.resolve(world, cur, a) for a in op["a"]]
    kwv = {n: ops.resolve(world, cur, v) for n, v in kw.items()}
    d = object.__getattribute__(cur, "__dict__")
    present = attr in d
    spec_elem = E[0] == "spec"
    Elem = world.classes[E[1]] if spec_elem else None
    keyed = spec_elem and E[1] == "N"
    if not present and verb != "with":
        # "creating the container when it is missing. A missing target raises IndexError, KeyError or ValueError": whatever is
        # addressed in a container that does not exist yet is a missing target
        if not args:
            return None
        if fam == "seq" and not isinstance(args[0], int) and (flags.get("_by_index") is True or not reftype.conforms(args[0], E, world)):
            return "raise", (IndexError, KeyError, ValueError, TypeError)  # (an index that is no index at all)
        return "raise", (IndexError, KeyError, ValueError)
    raw = d.get(attr)
    if fam == "map":
        content = dict(raw) if present else {}
    elif fam == "set":
        content = list(raw) if present else []
    else:
        content = list(raw) if present else []

    def make(base, attrs):
        """element from base value (or MISSING) + keyword attrs"""
        if base is MISSING:
            if not spec_elem:
                return None
            try:
                return Elem(**attrs)
            except ops.CLEAN:
                return "raise"
        base = _prep_item(world, attr, base)
        if keyed and isinstance(base, str):
            base = Elem(base)
        if attrs:
            if not spec_elem or not isinstance(base, Elem):
                return None
            base = copy.deepcopy(base)
            try:
                for n, v in attrs.items():
                    setattr(base, n, v)
            except ops.CLEAN:
                return "raise"
        if not reftype.conforms(base, E, world):
            return "raise"
        return base

    def apply_fn(old):
        fn = args[1] if len(args) > 1 else None
        new = old
        if fn is not None:
            new = fn(old)
            if new is MISSING:
                return None
        if kwv:
            if not spec_elem or not isinstance(new, Elem):
                return None
            new = copy.deepcopy(new)
            for n, f in kwv.items():
                r = f(getattr(new, n))
                if r is not MISSING:  # an attribute transform returning MISSING leaves the attribute alone (documented in mutate_value)
                    setattr(new, n, r)
        if not spec_elem:
            new = _prep_item(world, attr, new) if False else new
        if not reftype.conforms(new, E, world):
            return "raise"
        return new

    def locate_seq(target):
        by_index = flags.get("_by_index", None)
        if by_index is None:
            by_index = not reftype.conforms(target, E, world)
        if by_index:
            if isinstance(target, bool) or not isinstance(target, int):
                if T[0] == "keyedlist" and isinstance(target, str):
                    idx = [i for i, x in enumerate(content) if x.k == target]
                    return (idx[0] if idx else "missing")
                return "unconstrained"
            return target if -len(content) <= target < len(content) else "missing"
        try:
            return content.index(target)
        except ValueError:
            return "missing"

    if fam == "seq":
        if verb == "with":
            item = args[0] if args else MISSING
            idx = flags.get("_index", MISSING)
            if item is MISSING and not kwv:
                return None
            if isinstance(item, list) or (idx is not MISSING and not isinstance(idx, int)):
                return None
            el = make(item, kwv)
            if el is None:
                return None
            if el == "raise":
                return "raise", (TypeError, ValueError, KeyError, IndexError)
            new = list(content)
            if idx is MISSING:
                new.append(el)
            elif flags.get("_insert"):
                new.insert(idx, el)
            else:
                if not -len(content) <= idx < len(content):
                    return "raise", MISSING_TARGET
                new[idx] = el
            if _dup(world, T, new):
                return "raise", (ValueError,)
            return "ok", new
        target = args[0]
        pos = locate_seq(target)
        if pos == "unconstrained":
            return None
        if pos == "missing":
            return "raise", MISSING_TARGET
        new = list(content)
        if verb == "without":
            del new[pos]
            return "ok", new
        if verb == "update":
            base = args[1] if len(args) > 1 else content[pos]
            el = make(base, kwv)
        else:
            el = apply_fn(content[pos])
        if el is None:
            return None
        if el == "raise":
            return "raise", (TypeError, ValueError, KeyError)
        new[pos] = el
        if _dup(world, T, new):
            return "raise", (ValueError,)
        return "ok", new
    if fam == "map":
        key = args[0] if args else None
        if not isinstance(key, str):
            return None if key is None else ("raise", (TypeError, ValueError, KeyError))
        new = dict(content)
        if verb == "with":
            if len(args) < 2:
                if not (spec_elem and not keyed and kwv):
                    return None
                # "keywords build ... the element": with_<item>(key, **keywords) assigns a freshly built element to the key,
                # whatever the key held before (updating what is there is update_<item>'s job)
                el = make(MISSING, kwv)
            else:
                el = make(args[1], kwv)
        elif key not in content:
            return "raise", MISSING_TARGET
        elif verb == "without":
            del new[key]
            return "ok", new
        elif verb == "update":
            el = make(args[1] if len(args) > 1 else content[key], kwv)
        else:
            el = apply_fn(content[key])
        if el is None:
            return None
        if el == "raise":
            return "raise", (TypeError, ValueError, KeyError)
        new[key] = el
        return "ok", new
    # sets (set, KeyedSet): content is a list of elements
    def find(target):
        if keyed and isinstance(target, str):
            hits = [i for i, x in enumerate(content) if x.k == target]
        elif keyed and isinstance(target, Elem):
            hits = [i for i, x in enumerate(content) if x.k == target.k]
        else:
            try:
                hits = [i for i, x in enumerate(content) if x == target]
            except Exception:
                hits = []
        return hits[0] if hits else None

    def put(new, el):
        if keyed:
            new[:] = [x for x in new if x.k != el.k]
        elif el in new:
            return
        new.append(el)

    if verb == "with":
        item = args[0] if args else MISSING
        if item is MISSING and not kwv:
            return None
        el = make(item, kwv)
        if el is None:
            return None
        if el == "raise":
            return "raise", (TypeError, ValueError, KeyError)
        new = list(content)
        put(new, el)
        return "ok", new
    target = args[0]
    if isinstance(target, (list, dict, set)):
        return None
    pos = find(target)
    if pos is None:
        return "raise", MISSING_TARGET
    new = list(content)
    if verb == "without":
        del new[pos]
        return "ok", new
    if verb == "update":
        el = make(args[1] if len(args) > 1 else content[pos], kwv)
    else:
        el = apply_fn(content[pos])
    if el is None:
        return None
    if el == "raise":
        return "raise", (TypeError, ValueError, KeyError)
    del new[pos]
    put(new, el)
    return "ok", new


def content_of(obj, attr, fam):
    d = object.__getattribute__(obj, "__dict__")
    if attr not in d:
        return None
    raw = d[attr]
    if fam == "map":
        return dict(raw)
    return list(raw)


def same_content(fam, T, got, want):
    if got is None:
        return False
    if fam == "map":
        # a dict is ordered: `d[k] = v` under a key that is present keeps the entry where it is, a new key goes to the end
        return got == want and list(got) == list(want)
    def same(g, w):  # 1 and 1.0 are different elements of a container of floats
        return g == w and (type(g) is type(w) or not isinstance(g, (int, float)))

    if fam == "set":
        return len(got) == len(want) and all(any(same(g, w) for g in got) for w in want)
    if fam == "seq":
        return len(got) == len(want) and all(same(g, w) for g, w in zip(got, want))
    return got == want


def check_probe(ctx, case, world, cur, op, attr):
    T = world.attrs()[attr]["type"]
    fam = family(T)
    route = f"{op['m'].split('_', 1)[0]}_{T[0]}[{elem_type(T)[0]}]"
    before_other = {k: v for k, v in model.state_of(cur).items() if k != attr}
    before_content = content_of(cur, attr, fam)
    try:
        exp = expected(world, cur, attr, op)
    except ops.CLEAN as e:
        ctx.count(f"model_abstained:{type(e).__name__}")
        exp = None
    mode = "idx" if ("_index" in op["k"] or op["k"].get("_by_index") is True) else ("val" if op["k"].get("_by_index") is False else "auto")
    outcome, result = ops.execute(world, cur, op)
    ctx.count(f"{route}:{outcome}")
    if exp is None or outcome == "skip":
        ctx.count("unconstrained")
        return True, False
    if exp[0] == "same":
        if outcome != "ok" or result is not cur:
            ctx.fail(f"{route}|if_false", case, f"{op} with _if=False -> {outcome} {result!r}")
            return False, False
        return True, False
    if exp[0] == "raise":
        if outcome != "raise":
            got = content_of(result, attr, fam) if hasattr(result, "__spec_class__") else result
            ctx.fail(f"{route}|{mode}|missing_raise", case, f"{op} on {before_content!r} returned {got!r}; expected one of {[c.__name__ for c in exp[1]]}")
            return False, False
        if not isinstance(result, exp[1]):
            ctx.fail(f"{route}|{mode}|wrong_exception:{type(result).__name__}", case, f"{op} on {before_content!r} raised {result!r}; expected one of {[c.__name__ for c in exp[1]]}")
            return False, False
        return True, True
    if outcome != "ok":
        ctx.fail(f"{route}|{mode}|unexpected_raise:{type(result).__name__}", case, f"{op} on {before_content!r} raised {result!r}; a plain container gives {exp[1]!r}")
        return False, False
    target = cur if op["k"].get("_inplace") else result
    got = content_of(target, attr, fam)
    if not same_content(fam, T, got, exp[1]):
        ctx.fail(f"{route}|{mode}|content", case, f"{op} on {before_content!r} gave {got!r}; the plain container operation gives {exp[1]!r}")
        return False, False
    # a keyed container's by-key view shows the very elements its by-position view holds
    raw_after = object.__getattribute__(target, "__dict__").get(attr)
    if hasattr(raw_after, "keys") and hasattr(raw_after, "get") and not isinstance(raw_after, dict):
        for x in list(raw_after):
            kx = getattr(x, "k", x)
            if raw_after.get(kx) is not x:
                ctx.fail(f"{route}|{mode}|key_view_stale", case, f"{op} on {before_content!r}: element {x!r} is in the container, but looking its key {kx!r} up gives {raw_after.get(kx)!r}")
                return False, True
    if target is not cur:
        # the copy form edits a copy: the receiver's own container (an empty one included) is what it was
        now = content_of(cur, attr, fam)
        if (now is None) != (before_content is None) or (now is not None and not same_content(fam, T, now, before_content)):
            ctx.fail(f"{route}|{mode}|receiver_container_changed", case, f"{op} (copy form) on {before_content!r} left the receiver holding {now!r}")
            return False, False
    after_other = {k: v for k, v in model.state_of(target).items() if k != attr}
    if after_other != before_other:
        ctx.fail(f"{route}|{mode}|other_attributes", case, f"{op} changed other attributes: {before_other} -> {after_other}")
        return False, False
    return True, True


def _interesting(before, op):
    vals = [a for a in op["a"]] + [op["k"].get("_index")]
    falsy = any(v in (0, "", None) and not isinstance(v, bool) and v is not None for v in vals if not isinstance(v, list))
    neg = any(isinstance(v, int) and not isinstance(v, bool) and v < 0 for v in vals if not isinstance(v, list))
    n = len(before) if before is not None else 0
    return n >= 2 or falsy or neg


def run_case(ctx, case):
    world = grammar.build_world(case["world"])
    cur, _ = reach(world, case["ops"])
    if cur is None:
        ctx.case(case, False)
        return
    op = case["probe"]
    attr = case["attr"]
    fam = family(world.attrs()[attr]["type"])
    before = content_of(cur, attr, fam)
    ok, constrained = check_probe(ctx, case, world, cur, op, attr)
    if ok:
        ctx.case(case, constrained and _interesting(before, op))


@st.composite
def case_strategy(draw):
    src = grammar.HypSource(draw)
    wd = grammar.gen_world(src, PROFILE)
    info = grammar.world_info(wd)
    colls = [n for n, a in info.attrs().items() if grammar.is_collection(a["type"])]
    attr = src.pick(colls)
    hist = [ops.gen_new(src, info)]
    for _ in range(src.choice(7)):
        hist.append(ops.gen_element_call(src, info, None, attr, True, (0, 1)))
    T = info.attrs()[attr]["type"]
    if T[0] in ("list", "dict") and T[-1] == ["spec", "U"] and src.chance(1, 4):
        # the very same (unkeyed) element object at several positions / keys: an element helper edits the addressed slot only
        hist.append({"t": "set", "attr": attr, "v": ["$alias", attr, 2 + src.choice(2)]})
    probe = ops.gen_element_call(src, info, None, attr, src.pick([False, False, True]), (0, 1))
    if T[0] == "dict" and T[-1] == ["spec", "U"] and src.chance(1, 4):
        # a key whose element differs from a default-built one in BOTH attributes, then with_<item>(key, <one keyword>) without a
        # value: the key gets a freshly built element (the other attribute is back at its default), not the old one updated
        key = src.pick(grammar.KEYS)
        hist.append({"t": "call", "m": f"with_{grammar.SINGULAR[attr]}", "a": [key, ["spec", "U", {"a": 3 + src.choice(3), "b": src.pick(["zz", "q"])}]], "k": {"_inplace": True}})
        kw = {"a": src.pick([7, 0])} if src.chance(1, 2) else {"b": src.pick(["n", ""])}
        probe = {"t": "call", "m": f"with_{grammar.SINGULAR[attr]}", "a": [key], "k": dict(kw, _inplace=src.chance(1, 2))}
    return {"world": wd, "ops": hist, "probe": probe, "attr": attr}


# ---------------------------------------------------------------------------
# exhaustive small scope on a fixed class

ENUM_WORLD = {
    "eager": True,
    "classes": [
        {"name": "U", "kind": "spec", "bases": [], "opts": {}, "attrs": [{"name": "a", "type": ["int"], "default": ["lit", 1]}, {"name": "b", "type": ["str"], "default": ["lit", "b"]}]},
        {"name": "N", "kind": "spec", "bases": [], "opts": {"key": "k"}, "attrs": [{"name": "k", "type": ["str"], "default": ["none"]}, {"name": "v", "type": ["int"], "default": ["lit", 0]},
                                                                                     {"name": "notes", "type": ["list", ["str"]], "default": ["attr_factory", ["list", []]]}]},
        {"name": "M", "kind": "spec", "bases": [], "opts": {}, "attrs": [
            {"name": "nums", "type": ["list", ["int"]], "default": ["none"]}, {"name": "names", "type": ["list", ["str"]], "default": ["none"]},
            {"name": "scores", "type": ["dict", ["str"], ["int"]], "default": ["none"]}, {"name": "ids", "type": ["set", ["int"]], "default": ["none"]},
            {"name": "tags", "type": ["set", ["str"]], "default": ["none"]},
            # float elements addressed by equal ints (1 == 1.0): the stored element is what gets transformed / kept, not the value
            # used to look it up
            {"name": "weights", "type": ["list", ["float"]], "default": ["none"]}]},
    ],
    "instance_class": "M",
}
UNIV = {"nums": [0, 1, 5], "names": ["", "a", "b"], "ids": [0, 1, 5], "tags": ["", "a", "b"], "weights": [0.0, 1.0, 5.0]}


def enum_cases(attr):
    T = dict((a["name"], a["type"]) for a in ENUM_WORLD["classes"][2]["attrs"])[attr]
    fam = family(T)
    s = SINGULAR[attr]
    if fam == "map":
        keys, vals = ["", "a", "b"], [0, 1]
        contents = [None] + [["dict", [[k, v] for k, v in zip(ks, vs)]] for n in range(3) for ks in itertools.permutations(keys, n) for vs in itertools.product(vals, repeat=n)]
        probes = []
        for k in keys + ["zz"]:
            for v in vals:
                probes.append({"t": "call", "m": f"with_{s}", "a": [k, v], "k": {}})
                probes.append({"t": "call", "m": f"update_{s}", "a": [k, v], "k": {}})
            probes.append({"t": "call", "m": f"transform_{s}", "a": [k, ["$fn", "inc", 1]], "k": {}})
            probes.append({"t": "call", "m": f"without_{s}", "a": [k], "k": {}})
    else:
        univ = UNIV[attr]
        maxn = 3
        if fam == "set":
            contents = [None] + [["set", list(c)] for n in range(maxn + 1) for c in itertools.combinations(univ, n)]
        else:
            contents = [None] + [["list", list(c)] for n in range(maxn + 1) for c in itertools.product(univ, repeat=n)]
        fresh = univ + ([7] if isinstance(univ[0], (int, float)) else ["zz"])
        addr = [int(v) for v in fresh] if attr == "weights" else fresh
        fn = ["$fn", "inc", 5] if isinstance(univ[0], (int, float)) else ["$fn", "suffix", "x"]
        probes = []
        for v in fresh:
            probes.append({"t": "call", "m": f"with_{s}", "a": [v], "k": {}})
        if fam == "seq":
            idxs = list(range(-5, 6))
            for v in fresh[:2]:
                for i in idxs:
                    probes.append({"t": "call", "m": f"with_{s}", "a": [v], "k": {"_index": i}})
                    probes.append({"t": "call", "m": f"with_{s}", "a": [v], "k": {"_index": i, "_insert": True}})
            for target in addr + [-1, -4, 2, 3]:
                for mode in ({}, {"_by_index": True}, {"_by_index": False}):
                    if mode.get("_by_index") is True and not isinstance(target, int):
                        continue
                    probes.append({"t": "call", "m": f"update_{s}", "a": [target, fresh[1]], "k": dict(mode)})
                    probes.append({"t": "call", "m": f"transform_{s}", "a": [target, fn], "k": dict(mode)})
                    probes.append({"t": "call", "m": f"without_{s}", "a": [target], "k": dict(mode)})
        else:
            for target in fresh:
                probes.append({"t": "call", "m": f"update_{s}", "a": [target, fresh[1]], "k": {}})
                probes.append({"t": "call", "m": f"transform_{s}", "a": [target, fn], "k": {}})
                probes.append({"t": "call", "m": f"without_{s}", "a": [target], "k": {}})
    for c in contents:
        for p in probes:
            for inplace in (False, True):
                yield {"world": ENUM_WORLD, "ops": [{"t": "new", "k": ({attr: c} if c is not None else {})}], "probe": dict(p, k=dict(p["k"], **({"_inplace": True} if inplace else {}))), "attr": attr}


BOUNDS = {"quick": dict(examples=500, units=14), "thorough": dict(examples=5000, units=16)}


def units(tier, seed):
    return [["enum", a] for a in ("nums", "names", "scores", "ids", "tags", "weights")] + [["hyp", i] for i in range(BOUNDS[tier]["units"])]


def run_unit(ctx, unit):
    b = BOUNDS[ctx.tier]
    if unit[0] == "enum":
        world = grammar.build_world(ENUM_WORLD)
        for case in enum_cases(unit[1]):
            cur, _ = reach(world, case["ops"])
            before = content_of(cur, unit[1], family(world.attrs()[unit[1]]["type"]))
            ok, constrained = check_probe(ctx, case, world, cur, case["probe"], unit[1])
            if ok:
                ctx.case(case, constrained and _interesting(before, case["probe"]))
        ctx.count("enum_units_completed")
        return
    run_given(ctx, lambda case: run_case(ctx, case), {"case": case_strategy()}, b["examples"], ctx.seed * 1000 + unit[1])


def coverage_extra(tier, counters):
    return {"exhaustive": True, "exhaustive_scope": "List[int], List[str], Dict[str,int], Set[int], Set[str]: every content of length <= 3 over a 3-value universe (incl. 0 and '') and the missing container x every helper x addressing mode x copy/in-place"}


def replay(ctx, case):
    run_case(ctx, case)
