"""Subprocess entry point: python target.py <prop> <out.json> <corpus> <runs> <seed> <max_len> <known-json>"""
import importlib
import json
import os
import sys
import traceback

HERE = os.path.dirname(os.path.dirname(os.path.dirname(os.path.abspath(__file__))))


def main():
    prop_name, out, corpus, runs, seed, max_len, known = sys.argv[1:8]
    runs = int(runs)
    repo = os.path.abspath(os.environ.get("VF_REPO", "/repo"))
    sys.path[:0] = [repo, HERE]
    sys.path.append(os.path.join(HERE, ".deps"))
    import warnings

    warnings.simplefilter("ignore")
    state = {"n": 0}
    try:
        import atheris

        with atheris.instrument_imports(include=["spec_classes"], enable_loader_override=False):
            import spec_classes  # noqa: F401
        from vf.runner import Ctx, Violation

        prop = importlib.import_module(f"vf.props.{prop_name}")
        ctx = Ctx(prop_name.upper(), "thorough", int(seed), json.loads(known))
    except Exception:
        with open(out, "w") as f:
            json.dump({"error": traceback.format_exc()}, f)
        return

    def dump(final=False):
        r = ctx.result()
        r["execs"] = state["n"]
        tmp = out + ".tmp"
        with open(tmp, "w") as f:
            json.dump(r, f, default=repr)
        os.replace(tmp, out)

    def one(data):
        state["n"] += 1
        try:
            case = prop.decode_bytes(data)
            if case is not None:
                prop.run_case(ctx, case)
        except Violation as v:
            ctx.failures.append(v.as_dict())
            dump()
            os._exit(0)
        except BaseException:
            with open(out, "w") as f:
                json.dump({"error": traceback.format_exc()}, f)
            os._exit(0)
        if state["n"] % 2000 == 0 or state["n"] >= runs:
            dump()

    dump()
    atheris.Setup([sys.argv[0], f"-runs={runs}", f"-seed={seed}", f"-max_len={max_len}", "-verbosity=0", "-print_final_stats=0", corpus], one)
    atheris.Fuzz()


if __name__ == "__main__":
    main()
