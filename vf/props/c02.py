"""
C02 - derived copies share no mutable state with the original (do_not_copy excepted).

Oracles: (1) the sets of mutable object ids reachable from the result and from the receiver
intersect only in objects the caller handed to the call (do_not_copy edges pruned, frozen
instances are immutable leaves); (2) every do_not_copy attribute is carried by identity;
(3) after in-place follow-up mutations of one side, the other side's snapshot is unchanged.
"""
from __future__ import annotations

from vf import grammar, ops
from vf.props.common import op_route, world_history
from vf.probe import reach
from vf.runner import run_given
from vf.snapshot import Snapshot, diff, mutable_ids

ID = "C02"
LEVEL = "exploration"
RULE = (
    "cases = (generated class world incl. do_not_copy attributes declared through the decorator list / Attr(do_not_copy=True) / inherited by spec and "
    "plain subclasses and frozen nested classes; history of <= 8 ops; probe = a copy-on-write helper with freshly built arguments and new-object-returning "
    "transforms, or deepcopy; then <= 6 in-place follow-up ops on the result or on the receiver). Non-trivial = the receiver has >= 2 mutable nested objects, "
    "one at depth >= 2, and a follow-up in-place op succeeded; distinct = canonical JSON of the case."
)
ASSUMPTIONS = [
    "objects handed in by the caller may be shared with the result (the statement allows it)",
    "frozen instances are immutable: a frozen nested instance shared between copies is not 'mutable state'",
    "transforms return new objects (identity transforms on mutable values are excluded by the property's own quantifier)",
]

NEW_OBJECT_FNS = {  # "existing" returns an object that already exists: not a new-object transform
    "inc", "double", "neg", "const", "suffix", "append_copy", "empty", "with_first", "wrong", "to_missing"}


PROFILE = dict(grammar.PROFILES["data_dnc"], subclass_dnc=True)


def _sanitize(op):
    """Replace identity transforms (which hand the receiver's own object back) by new-object transforms."""
    def fix(a):
        if ops.is_special(a) and a[0] == "$fn" and a[1] not in NEW_OBJECT_FNS:
            return ["$fn", "with_first" if False else "const_same_kind", a[2]]
        return a
    return op


def _probe(src, info):
    if src.chance(1, 8):
        return {"t": "deepcopy"}
    op = ops.gen_op(src, info, inplace=False, bad_rate=(1, 10), allow=("scalar", "element", "top"))
    return op


def _has_identity_fn(op):
    vals = list(op.get("a", [])) + list(op.get("k", {}).values())
    return any(ops.is_special(a) and a[0] == "$fn" and a[1] not in NEW_OBJECT_FNS for a in vals)


@__import__("hypothesis").strategies.composite
def case_strategy(draw):
    src = grammar.HypSource(draw)
    wd = grammar.gen_world(src, PROFILE)
    touch = []
    r = next((c for c in wd["classes"] if c["name"] == "R"), None)
    if r is not None and isinstance(r["opts"].get("do_not_copy"), list):
        # a spec subclass that adds an attribute it merely inherits to do_not_copy: the instances under test are its PARENT's
        # (what the subclass declares is the subclass's business), created after the subclass has been bootstrapped
        wd["instance_class"] = "M"
        touch = ["R"]
    info = grammar.world_info(wd)
    case = {"world": wd, "ops": ops.gen_history(src, info, max_ops=8, bad_rate=(1, 10)), "probe": _probe(src, info)}
    if touch:
        case["touch"] = touch
    if src.chance(1, 4):
        # internal aliasing: one object of the receiver is (in place) put under a second attribute of the same receiver - the
        # copy must still share nothing with the original, however the copier walks the two references
        attrs = info.attrs()
        pairs = []
        for sname, a in attrs.items():
            if a["type"][0] != "spec":
                continue
            for cname_, b in attrs.items():
                if grammar.is_collection(b["type"]) and grammar.elem_type(b["type"]) == a["type"] and b["type"][0] in ("list", "dict"):
                    pairs.append((sname, cname_))
        if pairs:
            sname, coll = src.pick(pairs)
            if src.chance(1, 2):
                op = {"t": "call", "m": f"with_{sname}", "a": [["$same", coll, src.choice(3)]], "k": {"_inplace": True}}
            else:
                args = [["$same", sname]]
                if attrs[coll]["type"][0] == "dict":
                    args = [src.pick(grammar.KEYS)] + args
                op = {"t": "call", "m": f"with_{grammar.SINGULAR[coll]}", "a": args, "k": {"_inplace": True}}
            case["ops"].append(op)
            if attrs[sname].get("do_not_copy") or attrs[coll].get("do_not_copy"):
                # the object now sits under a do_not_copy attribute (shared with every copy, by declaration) AND under a regular
                # one of the same receiver: what is edited through the shared reference shows in the receiver's regular
                # attribute by the receiver's own aliasing - only the identity oracle applies
                case["no_follow"] = True
    n = src.choice(7)
    case["follow"] = [ops.gen_op(src, info, inplace=True, bad_rate=(1, 10), allow=("scalar", "element", "top", "nested")) for _ in range(n)]
    if case.pop("no_follow", False):
        case["follow"] = []
    case["side"] = src.pick(["result", "receiver"])
    if src.chance(1, 6):
        # a constructor keyword given as the exported UNCHANGED sentinel ("leave as it is") is an omitted keyword: the
        # instance still gets its own copy of the default
        names = [n for n, a in info.attrs().items() if a.get("init") is not False]
        if names:
            case["ops"][0]["k"][src.pick(names)] = ["$unchanged"]
    return case


def dnc_attrs(world, cname):
    return {n for n, a in world.attrs(cname).items() if a.get("do_not_copy")}


def run_case(ctx, case):
    world = grammar.build_world(case["world"])
    for name in case.get("touch", ()):
        world.classes[name].__spec_class__  # (bootstraps a lazily decorated class)
    probe = case["probe"]
    if probe["t"] == "call" and _has_identity_fn(probe):
        ctx.count("skipped_identity_transform")
        ctx.case(case, False)
        return
    cur, live = reach(world, case["ops"])
    if cur is None:
        ctx.case(case, False)
        return
    frozen = tuple(c for n, c in world.classes.items() if world.class_desc(n).get("opts", {}).get("frozen"))

    def skip(owner, key):
        n = type(owner).__name__
        return n in world.all_attrs and key in dnc_attrs(world, n)

    rec = []
    outcome, result = ops.execute(world, cur, probe, rec)
    route = op_route(world, probe)
    ctx.count(f"probe:{outcome}")
    if outcome != "ok" or not hasattr(result, "__spec_class__") or not isinstance(result, type(cur)):
        ctx.case(case, False)
        return
    if result is cur:
        # Returning the receiver itself is only legitimate for the documented no-op forms (C05): _if=False, an
        # UNCHANGED / MISSING value, a transform returning MISSING, or an element update/transform/without on a
        # container that does not exist. Any other copy-on-write call must hand back a distinct instance -
        # otherwise "the copy" shares everything with the original.
        if _is_noop_form(world, cur, probe):
            ctx.count("probe:noop_returned_receiver")
            ctx.case(case, False)
            return
        ctx.fail(f"{route}|returned_receiver", case, f"{probe} returned the receiver itself instead of a copy")
        return

    def mids(o):
        ids = mutable_ids(o, skip)
        return {i: x for i, x in ids.items() if not (frozen and isinstance(x, frozen))}

    a, b = mids(cur), mids(result)
    allowed = set()
    for arg in rec:
        allowed.update(mutable_ids(arg))
    shared = [a[i] for i in a if i in b and i not in allowed]
    if shared:
        x = shared[0]
        ctx.fail(f"{route}|shared:{type(x).__name__}", case, f"after {probe}: result and receiver share the mutable object {x!r} ({type(x).__name__})")
        return
    # (2) do_not_copy attributes are carried by identity
    touched = _touched(world, probe)
    rd, cd = object.__getattribute__(result, "__dict__"), object.__getattribute__(cur, "__dict__")
    for name in dnc_attrs(world, type(cur).__name__):
        if name in touched or name not in cd:
            continue
        if name not in rd or rd[name] is not cd[name]:
            if _leaf(cd[name]):
                continue
            ctx.fail(f"{route}|do_not_copy_copied:{world.attrs()[name]['do_not_copy']}", case,
                     f"after {probe}: do_not_copy attribute {name!r} was duplicated ({cd[name]!r} is not carried by identity)")
            return
    # (3) follow-up in-place mutations on one side are invisible on the other
    side, other = (result, cur) if case["side"] == "result" else (cur, result)
    before = Snapshot(other, skip)
    # what the other side READS for attributes it does not store itself (init=False attributes fall through to the class-level
    # default): an in-place change on one side must not show there either
    def fallthrough(o):
        d = object.__getattribute__(o, "__dict__")
        return [[n, getattr(o, n, None)] for n in world.attrs(type(o).__name__) if n not in d and n not in dnc_attrs(world, type(o).__name__)]

    before_reads = Snapshot(fallthrough(other))
    reads_root = before_reads.root if hasattr(before_reads, "root") else None
    ok_follow = 0
    for op in case["follow"]:
        o, _ = ops.execute(world, side, op)
        if o == "ok":
            ok_follow += 1
        now_reads = Snapshot(fallthrough(other))
        if before_reads.structure() != now_reads.structure():
            ctx.fail(f"{route}|follow:{op_route(world, op)}|visible_through_class_default", case,
                     f"in-place {op} on the {case['side']} changed what the other instance reads for an attribute it does not store itself: "
                     f"{before_reads.structure()} -> {now_reads.structure()}")
            return
        after = Snapshot(other, skip)
        if before.identity_form() != after.identity_form():
            ctx.fail(f"{route}|follow:{op_route(world, op)}|visible_on_{'receiver' if other is cur else 'result'}", case,
                     f"in-place {op} on the {case['side']} changed the other instance: {diff(before, other)}")
            return
    deep = _depth(cur) >= 2 and len(a) >= 3
    ctx.case(case, deep and ok_follow > 0)


def _is_noop_form(world, cur, probe):
    if probe["t"] != "call":
        return False
    k = probe["k"]
    if k.get("_if") is False:
        return True
    vals = list(probe["a"]) + [v for kk, v in k.items()]
    if any(ops.is_special(v) and (v[0] in ("$missing", "$unchanged") or (v[0] == "$fn" and v[1] == "to_missing")) for v in vals):
        return True
    m = probe["m"]
    if "_" in m:
        verb, rest = m.split("_", 1)
        d = object.__getattribute__(cur, "__dict__")
        for name in world.attrs():
            if grammar.SINGULAR.get(name) == rest and verb in ("update", "transform", "without") and name not in d:
                return True
        if verb in ("with", "update", "transform") and rest in world.attrs():
            # with_<a>() / update_<a>() / transform_<a>() given nothing at all
            if not probe["a"] and not [kk for kk in k if not kk.startswith("_")] and verb != "with":
                return True
    if m in ("update", "transform") and not probe["a"] and not [kk for kk in k if not kk.startswith("_")]:
        return True
    return False


def _leaf(v):
    from vf.snapshot import LEAF_TYPES

    return isinstance(v, LEAF_TYPES) or isinstance(v, tuple)


def _touched(world, probe):
    if probe["t"] != "call":
        return set()
    m = probe["m"]
    out = set(k for k in probe["k"] if not k.startswith("_"))
    if "_" in m:
        rest = m.split("_", 1)[1]
        for name in world.attrs():
            if rest == name or grammar.SINGULAR.get(name) == rest:
                out.add(name)
    if m == "reset":
        out.update(world.attrs())
    # invalidation may reset dependants
    for name, a in world.attrs().items():
        if set(a.get("invalidated_by") or ()) & out:
            out.add(name)
    return out


def _depth(obj, d=0, seen=None):
    seen = seen or set()
    if id(obj) in seen or d > 6:
        return d
    seen.add(id(obj))
    if isinstance(obj, (list, set, tuple)):
        return max([_depth(x, d + 1, seen) for x in obj] or [d + 1])
    if isinstance(obj, dict):
        return max([_depth(x, d + 1, seen) for x in obj.values()] or [d + 1])
    if hasattr(obj, "_dict") and hasattr(obj, "_key"):
        return max([_depth(x, d + 1, seen) for x in obj._dict.values()] or [d + 1])
    if hasattr(obj, "__spec_class__"):
        return max([_depth(x, d + 1, seen) for x in object.__getattribute__(obj, "__dict__").values()] or [d])
    return d


BOUNDS = {"quick": dict(examples=450, units=16), "thorough": dict(examples=4000, units=16)}


def units(tier, seed):
    return [["hyp", i] for i in range(BOUNDS[tier]["units"])]


def run_unit(ctx, unit):
    b = BOUNDS[ctx.tier]
    run_given(ctx, lambda case: run_case(ctx, case), {"case": case_strategy()}, b["examples"], ctx.seed * 1000 + unit[1])


def replay(ctx, case):
    run_case(ctx, case)
