#!/bin/sh
# Offline dependency self-check. Installs hypothesis (and, best effort, atheris)
# from the local wheelhouse if missing. Nothing is fetched from a network.
HERE="$(cd "$(dirname "$0")" && pwd)"
PY="${VF_PYTHON:-/venv/bin/python}"
WH=/opt/veriftools/wheels
export PIP_NO_INDEX=1
if ! "$PY" -c "import hypothesis" 2>/dev/null; then
  "$PY" -m pip install --no-index --find-links "$WH" --target "$HERE/.deps" hypothesis || exit 1
fi
if ! PYTHONPATH="$HERE/.deps" "$PY" -c "import atheris" 2>/dev/null; then
  "$PY" -m pip install --no-index --find-links "$WH" --target "$HERE/.deps" atheris >/dev/null 2>&1 || echo "setup: atheris not installable (thorough fuzz tiers fall back to hypothesis)"
fi
PYTHONPATH="$HERE/.deps" "$PY" -c "import hypothesis, sys; print('setup ok: hypothesis', hypothesis.__version__)" || exit 1
exit 0
