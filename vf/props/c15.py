"""
C15 - the run-time type check accepts a value exactly when it conforms structurally.

Oracle: an independent reference checker that works on the *descriptor* the
annotation was built from (no typing introspection at all), compared with
spec_classes.utils.type_checking.check_type on the real annotation object.
Any exception out of check_type is a violation.
"""

from __future__ import annotations

import functools
import itertools
import operator
import typing

from hypothesis import strategies as st

from vf.runner import run_given

ID = "C15"
LEVEL = "exploration"
RULE = (
    "cases = (annotation descriptor, value descriptor). Annotations are generated from the grammar {Any,int,float,str,bool,"
    "bytes,None,user class,spec class,List,Set,Dict,Tuple[...],Tuple[T,...],Type,Union,Optional,X|Y,PEP585,Literal,bounded,"
    "validated} to depth <= 3; values are built from the annotation (conforming, or broken at one structural position) plus a "
    "general pool. Exhaustive part: every annotation of depth <= 1 (thorough: depth <= 2 over a reduced base) x every derived "
    "value + the whole general pool. Oracle = descriptor-level reference checker. Non-trivial = annotation depth >= 2 and the "
    "value was derived from the annotation (conforming or one-position near miss); distinct = canonical JSON of (annotation, value)."
)
ASSUMPTIONS = [
    "float accepts int/bool (class membership per the statement); Fraction/Decimal/NaN are not generated",
    "Literal membership is decided by == (so True conforms to Literal[1])",
    "Type[Union[...]], Type[Any], abstract Sequence/Mapping generics are outside the stated language and not generated",
]

_ENV = {}


def env():
    if not _ENV:
        from spec_classes import spec_class
        from spec_classes.types.validated import bounded, validated
        from spec_classes.utils.type_checking import check_type

        class A:
            pass

        class B(A):
            pass

        class C(B):  # grand-child: the subclass relation is transitive
            pass

        class Other:
            pass

        @spec_class(bootstrap=True)
        class S:
            x: int = 0

        class S2(S):
            pass

        preds = {
            "even": lambda v: isinstance(v, int) and v % 2 == 0,
            "nonempty_str": lambda v: (isinstance(v, str) and len(v) > 0) or None,  # (answers None, not False, like re.fullmatch)
            "nonempty_dict": lambda v: isinstance(v, dict) and len(v) > 0,
        }
        vtypes = {k: validated(f, name=k) for k, f in preds.items()}
        _ENV.update(
            classes={"A": A, "B": B, "C": C, "Other": Other, "S": S, "S2": S2, "int": int, "str": str, "bool": bool, "float": float,
                     "list": list, "tuple": tuple, "dict": dict, "NoneType": type(None)},
            preds=preds, vtypes=vtypes, bounded=bounded, check_type=check_type, bcache={},
        )
    return _ENV


SUBCLASSES = {"Any": ["A", "B", "C", "S", "S2", "Other", "int", "bool", "str"], "A": ["A", "B", "C"], "B": ["B", "C"], "C": ["C"], "S": ["S", "S2"], "Other": ["Other"], "int": ["int", "bool"], "str": ["str"],
              "float": ["float"], "bool": ["bool"], "S2": ["S2"]}

# ---------------------------------------------------------------------------
# descriptor -> annotation object


def _param(D, style):
    """A type parameter: inside PEP 585 generics `None` is written bare (list[None] keeps the literal None in __args__;
    typing.List[None] is normalised to NoneType by typing itself)."""
    t = build_type(D)
    return None if (t is type(None) and style == "pep585") else t


def build_type(D):
    e = env()
    k = D[0]
    if k == "any":
        return typing.Any
    if k in ("int", "float", "str", "bool", "bytes"):
        return {"int": int, "float": float, "str": str, "bool": bool, "bytes": bytes}[k]
    if k == "none":
        return type(None)
    if k == "cls":
        return e["classes"][D[1]]
    if k == "list":
        t = _param(D[1], D[2])
        return typing.List[t] if D[2] == "typing" else list[t]
    if k == "set":
        t = _param(D[1], D[2])
        return typing.Set[t] if D[2] == "typing" else set[t]
    if k == "dict":
        kt, vt = _param(D[1], D[3]), _param(D[2], D[3])
        return typing.Dict[kt, vt] if D[3] == "typing" else dict[kt, vt]
    if k == "tuple":
        ts = tuple(_param(t, D[2]) for t in D[1])
        if not ts:
            return typing.Tuple[()] if D[2] == "typing" else tuple[()]
        return typing.Tuple[ts] if D[2] == "typing" else tuple[ts]
    if k == "vtuple":
        t = _param(D[1], D[2])
        return typing.Tuple[t, ...] if D[2] == "typing" else tuple[t, ...]
    if k == "type":
        c = typing.Any if D[1] == "Any" else e["classes"][D[1]]
        return typing.Type[c] if D[2] == "typing" else type[c]
    if k == "typeof":
        t = _param(D[1], D[2])
        return typing.Type[t] if D[2] == "typing" else type[t]
    if k == "union":
        ts = [build_type(t) for t in D[1]]
        if D[2] == "pep604":
            ts = [None if t is type(None) else t for t in ts]
            if ts[0] is None:  # None | X is not valid syntax at run time when X is also None-like; put a type first
                ts = ts[1:] + ts[:1]
            try:
                return functools.reduce(operator.or_, ts)
            except TypeError:
                return typing.Union[tuple(build_type(t) for t in D[1])]
        return typing.Union[tuple(ts)]
    if k == "optional":
        return typing.Optional[build_type(D[1])]
    if k == "literal":
        return typing.Literal[tuple(D[1])]
    if k == "bounded":
        key = repr(D)
        if key not in e["bcache"]:
            e["bcache"][key] = e["bounded"]({"int": int, "float": float}[D[1]], **D[2])
        return e["bcache"][key]
    if k == "validated":
        return e["vtypes"][D[1]]
    raise AssertionError(D)


def depth(D):
    k = D[0]
    if k in ("list", "set", "vtuple", "optional"):
        return 1 + depth(D[1])
    if k == "dict":
        return 1 + max(depth(D[1]), depth(D[2]))
    if k in ("tuple", "union"):
        return 1 + max([depth(t) for t in D[1]] or [0])
    if k == "type":
        return 1
    if k == "typeof":
        return 1 + depth(D[1])
    return 0


# ---------------------------------------------------------------------------
# value descriptors -> values


def realize(v):
    if isinstance(v, list):
        k = v[0]
        if k == "bytes":
            return v[1].encode()
        if k == "nan":
            return float("nan")
        if k == "list":
            return [realize(x) for x in v[1]]
        if k == "set":
            return {realize(x) for x in v[1]}
        if k == "tuple":
            return tuple(realize(x) for x in v[1])
        if k == "dict":
            return {realize(a): realize(b) for a, b in v[1]}
        if k == "inst":
            return _inst(v[1])
        if k == "class":
            return env()["classes"][v[1]]
        raise AssertionError(v)
    return v


_INST = {}


def _inst(name):
    if name not in _INST:
        _INST[name] = env()["classes"][name]()
    return _INST[name]


# ---------------------------------------------------------------------------
# the reference checker (on descriptors)


def conforms(v, D):
    e = env()
    k = D[0]
    if k == "any":
        return True
    if k == "int":
        return isinstance(v, int)
    if k == "float":
        return isinstance(v, (int, float))
    if k == "str":
        return isinstance(v, str)
    if k == "bool":
        return isinstance(v, bool)
    if k == "bytes":
        return isinstance(v, bytes)
    if k == "none":
        return v is None
    if k == "cls":
        return isinstance(v, e["classes"][D[1]])
    if k == "list":
        return isinstance(v, list) and all(conforms(x, D[1]) for x in v)
    if k == "set":
        return isinstance(v, set) and all(conforms(x, D[1]) for x in v)
    if k == "dict":
        return isinstance(v, dict) and all(conforms(a, D[1]) and conforms(b, D[2]) for a, b in v.items())
    if k == "tuple":
        return isinstance(v, tuple) and len(v) == len(D[1]) and all(conforms(x, t) for x, t in zip(v, D[1]))
    if k == "vtuple":
        return isinstance(v, tuple) and all(conforms(x, D[1]) for x in v)
    if k == "type":
        return isinstance(v, type) and (D[1] == "Any" or issubclass(v, e["classes"][D[1]]))
    if k == "typeof":
        return isinstance(v, type) and subclass_of(v, D[1])
    if k == "union":
        return any(conforms(v, t) for t in D[1])
    if k == "optional":
        return v is None or conforms(v, D[1])
    if k == "literal":
        for c in D[1]:
            try:
                if c is v or (type(c) is type(v) and c == v):  # Literal[1] admits neither True nor 1.0 (PEP 586)
                    return True
            except Exception:  # pragma: no cover
                pass
        return False
    if k == "bounded":
        if not conforms(v, [D[1]]):
            return False
        b = D[2]
        if "ge" in b and not v >= b["ge"]:
            return False
        if "gt" in b and not v > b["gt"]:
            return False
        if "le" in b and not v <= b["le"]:
            return False
        if "lt" in b and not v < b["lt"]:
            return False
        return True
    if k == "validated":
        return bool(e["preds"][D[1]](v))  # (any falsy answer of the predicate is a rejection)
    raise AssertionError(D)


def subclass_of(c, D):
    """Type[T] for a parameterised T: the subclass relation against what T denotes as a class."""
    e = env()
    k = D[0]
    if k == "any":
        return True
    if k in ("int", "float", "str", "bool", "bytes"):
        return issubclass(c, {"int": int, "float": float, "str": str, "bool": bool, "bytes": bytes}[k])
    if k == "none":
        return c is type(None)
    if k == "cls":
        return issubclass(c, e["classes"][D[1]])
    if k in ("list", "set", "dict", "tuple", "vtuple"):
        return issubclass(c, {"list": list, "set": set, "dict": dict, "tuple": tuple, "vtuple": tuple}[k])
    if k == "union":
        return any(subclass_of(c, t) for t in D[1])
    if k == "optional":
        return c is type(None) or subclass_of(c, D[1])
    if k == "literal":
        return False  # a literal value is not a class
    return None  # (bounded / validated / nested Type: not generated under Type[...])


# ---------------------------------------------------------------------------
# Generators driven by a "source" of choices (Hypothesis draws or fuzzer bytes)


class HypSource:
    def __init__(self, draw):
        self.draw = draw

    def choice(self, n):
        return self.draw(st.integers(0, n - 1))


class ByteSource:
    def __init__(self, data):
        self.data = data
        self.i = 0

    def choice(self, n):
        if self.i >= len(self.data):
            return 0
        b = self.data[self.i]
        self.i += 1
        return b % n


BOUNDS_POOL = [
    {"ge": 0}, {"gt": 0}, {"le": 0}, {"lt": 0}, {"ge": 0, "le": 5}, {"gt": 0, "lt": 5}, {"ge": -2, "lt": 0}, {"gt": -3, "le": 0},
    {"ge": 1}, {"gt": 1, "le": 4}, {"ge": 0.0, "le": 1.0}, {"gt": 0.0, "lt": 1.0}, {"le": -1}, {"lt": 2},
]
LITERALS = [["a", "b", 1], [1, 2], ["x"], [0, ""], [True, "t"], [None, "n"]]
BASE = (
    [["any"], ["int"], ["float"], ["str"], ["bool"], ["bytes"], ["none"], ["cls", "A"], ["cls", "B"], ["cls", "S"]]
    + [["literal", c] for c in LITERALS]
    + [["bounded", "int", b] for b in BOUNDS_POOL if all(isinstance(x, int) for x in b.values())]
    + [["bounded", "float", b] for b in BOUNDS_POOL]
    + [["validated", "even"], ["validated", "nonempty_str"], ["validated", "nonempty_dict"]]
)
REDUCED = [["any"], ["int"], ["float"], ["str"], ["none"], ["cls", "A"], ["literal", ["a", "b", 1]], ["bounded", "int", {"ge": 0}],
           ["bounded", "float", {"gt": 0, "le": 1.0}]]
HASHABLE_KINDS = {"int", "float", "str", "bool", "bytes", "none", "cls", "literal", "bounded", "validated"}
TYPE_TARGETS = ["A", "B", "S", "int", "Other", "Any"]
TYPEOF_TARGETS = [
    ["optional", ["int"]], ["optional", ["list", ["int"], "typing"]], ["union", [["int"], ["str"]], "typing"], ["union", [["int"], ["list", ["int"], "typing"]], "typing"],
    ["list", ["int"], "typing"], ["list", ["int"], "pep585"], ["vtuple", ["int"], "typing"], ["dict", ["str"], ["int"], "typing"], ["literal", ["a", "b", 1]], ["none"],
    ["union", [["cls", "A"], ["none"]], "pep604"],
]
KEY_TYPES = [["int"], ["str"], ["float"], ["bool"], ["any"], ["literal", ["a", "b", 1]], ["bounded", "int", {"ge": 0}], ["union", [["int"], ["str"]], "typing"]]


def hashable_type(D):
    k = D[0]
    if k == "validated" and D[1] == "nonempty_dict":
        return False
    if k in HASHABLE_KINDS:
        return True
    if k in ("tuple", "union"):
        return all(hashable_type(t) for t in D[1])
    if k in ("vtuple", "optional"):
        return hashable_type(D[1])
    if k in ("type", "typeof"):
        return True
    return False  # any / list / set / dict


def gen_type(src, d, need_hashable=False):
    """A type descriptor of depth <= d."""
    if d == 0 or src.choice(4) == 0:
        for _ in range(8):
            D = BASE[src.choice(len(BASE))]
            if not need_hashable or hashable_type(D):
                return D
        return ["int"]
    style = ["typing", "pep585"][src.choice(2)]
    prods = ["list", "set", "dict", "tuple", "vtuple", "type", "union", "optional", "union604"]
    if need_hashable:
        prods = ["tuple", "vtuple", "type", "union", "optional", "union604"]
    p = prods[src.choice(len(prods))]
    if p == "list":
        return ["list", gen_type(src, d - 1), style]
    if p == "set":
        return ["set", gen_type(src, d - 1, True), style]
    if p == "dict":
        return ["dict", KEY_TYPES[src.choice(len(KEY_TYPES))], gen_type(src, d - 1), style]
    if p == "tuple":
        n = src.choice(4)
        return ["tuple", [gen_type(src, d - 1, need_hashable) for _ in range(n)], style]
    if p == "vtuple":
        return ["vtuple", gen_type(src, d - 1, need_hashable), style]
    if p == "type":
        if d >= 2 and src.choice(3) == 0:
            # Type[T] with a parameterised T (a union / optional / generic / literal): the subclass relation against what T denotes
            inner = TYPEOF_TARGETS[src.choice(len(TYPEOF_TARGETS))]
            return ["typeof", inner, style]
        return ["type", TYPE_TARGETS[src.choice(len(TYPE_TARGETS))], style]
    if p == "optional":
        return ["optional", gen_type(src, d - 1, need_hashable)]
    n = 2 + src.choice(2)
    return ["union", [gen_type(src, d - 1, need_hashable) for _ in range(n)], "pep604" if p == "union604" else "typing"]


GENERAL_POOL = [
    None, True, False, 0, 1, -1, 2, 5, 7, 0.0, 0.5, 1.0, -1.5, 2.5, ["nan"], "", "a", "b", "x", "zz", ["bytes", ""], ["bytes", "ab"],
    ["list", []], ["list", [1]], ["list", ["a"]], ["list", [1, "a"]], ["list", [None]], ["list", [0.5]],
    ["set", []], ["set", [1]], ["set", ["a", 1]], ["tuple", []], ["tuple", [1]], ["tuple", [1, "a"]], ["tuple", ["a", 1]], ["tuple", [1, 2, 3]],
    ["dict", []], ["dict", [["a", 1]]], ["dict", [[1, "a"]]], ["dict", [["a", None]]],
    ["inst", "A"], ["inst", "B"], ["inst", "C"], ["inst", "S"], ["inst", "S2"], ["inst", "Other"],
    ["class", "A"], ["class", "B"], ["class", "C"], ["class", "S"], ["class", "Other"], ["class", "int"], ["class", "bool"], ["class", "str"],
    ["class", "list"], ["class", "NoneType"],
]

WRONG = {
    "int": ["a", 1.5, None, ["list", [1]]],
    "float": ["a", None, ["tuple", [1.0]]],
    "str": [1, None, ["bytes", "a"], ["list", ["a"]]],
    "bool": [1, 0, "True", None],
    "bytes": ["ab", 1, None],
    "none": [0, False, "", ["list", []]],
}
RIGHT = {
    "int": [0, 1, -1, 2, 5, True],
    "float": [0.0, 0.5, -1.5, 2.0, 1, 0, ["nan"]],  # NaN is a float (and lies within no bounds)
    "str": ["", "a", "b", "zz"],
    "bool": [True, False],
    "bytes": [["bytes", ""], ["bytes", "ab"]],
    "none": [None],
}


def _bound_values(D, good):
    base, b = D[1], D[2]
    step = 1 if base == "int" else 0.5
    lo = b.get("ge", b.get("gt"))
    hi = b.get("le", b.get("lt"))
    cands = set()
    for x in (lo, hi):
        if x is not None:
            cands.update([x - step, x, x + step, x - 2 * step, x + 2 * step])
    cands.update([0, 1, -1] if base == "int" else [0.0, 0.5, -0.5, 1])
    if base == "int":
        cands = {int(c) for c in cands if float(c).is_integer()}
    out = sorted(c for c in cands if conforms(c, D) == good)
    if not good:
        out += ["a", None] + ([0.5] if base == "int" else [["nan"]])
    return out


def gen_value(src, D, good):
    """A value descriptor that conforms to D (good) or breaks it at one position (not good).
    Best effort: the oracle never relies on it, the reference decides."""
    k = D[0]
    e = env()
    if k == "any":
        return GENERAL_POOL[src.choice(len(GENERAL_POOL))]
    if k in RIGHT:
        pool = RIGHT[k] if good else WRONG[k]
        return pool[src.choice(len(pool))]
    if k == "cls":
        if good:
            subs = SUBCLASSES[D[1]]
            return ["inst", subs[src.choice(len(subs))]]
        bad = [["inst", n] for n in ("A", "B", "C", "S", "Other") if n not in SUBCLASSES[D[1]]] + [["class", D[1]], None, 1]
        return bad[src.choice(len(bad))]
    if k in ("list", "set", "vtuple"):
        n = src.choice(4)
        items = [gen_value(src, D[1], True) for _ in range(n)]
        tag = {"list": "list", "set": "set", "vtuple": "tuple"}[k]
        if not good:
            mode = src.choice(3)
            if mode == 0 or D[1][0] == "any":
                other = {"list": "tuple", "set": "list", "vtuple": "list"}[k]
                return [other, items]
            if not items:
                items = [None]
            items[src.choice(len(items))] = gen_value(src, D[1], False)
        if tag == "set":
            items = _dedupe(items)
        return [tag, items]
    if k == "dict":
        n = src.choice(3)
        pairs = [[gen_value(src, D[1], True), gen_value(src, D[2], True)] for _ in range(n)]
        if not good:
            mode = src.choice(3)
            if mode == 0:
                return ["list", [p[0] for p in pairs]]
            if not pairs:
                pairs = [[gen_value(src, D[1], True), gen_value(src, D[2], True)]]
            i = src.choice(len(pairs))
            if mode == 1 and D[1][0] != "any":
                pairs[i][0] = _hashable_or(gen_value(src, D[1], False), "zz")
            else:
                pairs[i][1] = gen_value(src, D[2], False)
        seen, out = set(), []
        for a, b in pairs:
            a = _hashable_or(a, "zz")
            if repr(a) not in seen:
                seen.add(repr(a))
                out.append([a, b])
        return ["dict", out]
    if k == "tuple":
        items = [gen_value(src, t, True) for t in D[1]]
        if not good:
            mode = src.choice(4)
            if mode == 0:
                return ["list", items]
            if mode == 1:
                return ["tuple", items + [gen_value(src, D[1][-1], True) if D[1] else 1]]
            if mode == 2 and items:
                return ["tuple", items[:-1]]
            if items:
                i = src.choice(len(items))
                items[i] = gen_value(src, D[1][i], False)
            else:
                items = [None]
        return ["tuple", items]
    if k == "type":
        if good:
            subs = SUBCLASSES[D[1]]
            return ["class", subs[src.choice(len(subs))]]
        bad = [["class", n] for n in ("A", "B", "C", "S", "Other", "int", "str") if n not in SUBCLASSES[D[1]]] + [["inst", "A"], 1, None]
        return bad[src.choice(len(bad))]
    if k == "typeof":
        pool = [["class", n] for n in ("A", "B", "S", "Other", "int", "bool", "str", "list", "tuple", "dict", "NoneType")] + [["inst", "A"], 1, None]
        cands = [c for c in pool if conforms(realize(c), D) == good]
        return (cands or pool)[src.choice(len(cands or pool))]
    if k == "union":
        i = src.choice(len(D[1]))
        return gen_value(src, D[1][i], good)
    if k == "optional":
        if good and src.choice(3) == 0:
            return None
        return gen_value(src, D[1], good)
    if k == "literal":
        if good:
            return D[1][src.choice(len(D[1]))]
        near = ["A", "B", 3, 0.5, "1", None, False, ["list", [1]], "", 0, 1]
        return near[src.choice(len(near))]
    if k == "bounded":
        pool = _bound_values(D, good) or [None]
        return pool[src.choice(len(pool))]
    if k == "validated":
        pool = {"even": ([0, 2, -4], [1, 3, "a", 2.0, None]), "nonempty_str": (["a", "zz"], ["", 1, None, ["list", ["a"]]]),
                "nonempty_dict": ([["dict", [["a", 1]]], ["dict", [[1, "one"]]]], [["dict", []], 1, None, "a"])}[D[1]]
        pool = pool[0] if good else pool[1]
        return pool[src.choice(len(pool))]
    raise AssertionError(D)


def _is_hashable_vdesc(v):
    return not (isinstance(v, list) and v[0] in ("list", "set", "dict"))


def _hashable_or(v, default):
    if isinstance(v, list) and v[0] == "tuple":
        return ["tuple", [_hashable_or(x, default) for x in v[1]]]
    return v if _is_hashable_vdesc(v) else default


def _dedupe(items):
    seen, out = set(), []
    for x in items:
        x = _hashable_or(x, "zz")
        if repr(x) not in seen:
            seen.add(repr(x))
            out.append(x)
    return out


# ---------------------------------------------------------------------------


def run_case(ctx, case):
    D, vd = case["type"], case["value"]
    T = build_type(D)
    v = realize(vd)
    want = conforms(v, D)
    try:
        got = env()["check_type"](v, T)
    except Exception as e:  # "within this annotation language the check never raises"
        ctx.fail(f"raises:{D[0]}:{type(e).__name__}", case, f"check_type({v!r}, {T!r}) raised {e!r}")
        return
    if got is not want:
        inner = _blame(D, v)
        ctx.fail(f"{'accepts' if got else 'rejects'}:{inner}", case, f"check_type({v!r}, {T!r}) -> {got!r}, reference says {want!r}")
        return
    if not assignment_route(ctx, case, D, T, v, want):
        return
    ctx.count("accepted" if want else "rejected")
    ctx.count(f"kind:{D[0]}")
    ctx.case(case, depth(D) >= 2 and case.get("mode") in ("good", "bad"))


_HOSTS = {}


def assignment_route(ctx, case, D, T, v, want):
    """'A value is accepted for an annotation exactly when it conforms to it' where annotations are used: on a managed attribute
    declared with the annotation, through assignment and through the constructor: a conforming value is never refused.
    (What is stored - collections are copied, sequences cast - and the refusal of non-conforming values belong to C03.)"""
    from spec_classes import spec_class

    key = repr(D)
    if key not in _HOSTS:
        try:
            _HOSTS[key] = spec_class(bootstrap=True)(type("Host", (), {"__annotations__": {"x": T}, "__module__": "vf.generated"}))
        except Exception as e:
            _HOSTS[key] = e
    host = _HOSTS[key]
    if isinstance(host, Exception):
        ctx.fail(f"assign:declare:{D[0]}:{type(host).__name__}", case, f"declaring an attribute x: {T!r} raised {host!r}")
        return False
    for route in ("setattr", "ctor"):
        try:
            if route == "setattr":
                obj = host()
                obj.x = v
            else:
                obj = host(x=v)
        except Exception as e:
            if want:
                ctx.fail(f"assign:{route}:rejects:{_blame(D, v)}", case, f"{route} of the conforming value {v!r} to an attribute x: {T!r} raised {e!r}")
                return False
    ctx.count("assignment_routes")
    return True


def _blame(D, v):
    """Coarse root-cause signature: outermost kind + first nested kind."""
    k = D[0]
    sub = ""
    if k in ("list", "set", "vtuple", "optional"):
        sub = D[1][0]
    elif k == "dict":
        sub = D[1][0] + "," + D[2][0]
    elif k in ("tuple", "union"):
        sub = ",".join(sorted({t[0] for t in D[1]}))
    elif k == "bounded":
        sub = ",".join(sorted(D[2]))
    style = D[-1] if isinstance(D[-1], str) and D[-1] in ("typing", "pep585", "pep604") else ""
    return f"{k}[{sub}]{style}"


def derived_values(D, seeds=(0, 1, 2, 3, 4, 5)):
    """Deterministic conforming / near-miss values for the enumeration."""
    out, seen = [], set()
    for good in (True, False):
        for s in seeds:
            src = ByteSource(bytes((s * 37 + i * 11 + (0 if good else 5)) % 251 for i in range(64)))
            v = gen_value(src, D, good)
            key = repr(v)
            if key not in seen:
                seen.add(key)
                out.append((v, "good" if good else "bad"))
    return out


def depth1_types(base):
    out = list(base)
    for style in ("typing", "pep585"):
        for t in base:
            out.append(["list", t, style])
            out.append(["vtuple", t, style])
            if hashable_type(t):
                out.append(["set", t, style])
            for kt in KEY_TYPES[:4]:
                out.append(["dict", kt, t, style])
        for a, b in itertools.product(base, repeat=2):
            out.append(["tuple", [a, b], style])
        for a in base[:6]:
            out.append(["tuple", [a], style])
            out.append(["tuple", [a, a, a], style])
        out.append(["tuple", [], style])
        for c in TYPE_TARGETS:
            out.append(["type", c, style])
    for t in base:
        out.append(["optional", t])
    for a, b in itertools.combinations(base, 2):
        out.append(["union", [a, b], "typing"])
        out.append(["union", [a, b], "pep604"])
    return out


def depth2_types(d1):
    out = []
    for style in ("typing", "pep585"):
        for t in d1:
            if depth(t) != 1:
                continue
            out.append(["list", t, style])
            out.append(["vtuple", t, style])
            out.append(["dict", ["str"], t, style])
            out.append(["tuple", [["int"], t], style])
            if hashable_type(t):
                out.append(["set", t, style])
    for t in d1:
        if depth(t) != 1:
            continue
        out.append(["optional", t])
        out.append(["union", [["none"], t], "pep604"])
        out.append(["union", [["str"], t], "typing"])
    return out


BOUNDS = {
    "quick": dict(examples=8000, hyp_units=16, shards=16),
    "thorough": dict(examples=60000, hyp_units=16, shards=32),
}


def units(tier, seed):
    b = BOUNDS[tier]
    out = [["enum1", i, b["shards"]] for i in range(b["shards"])]
    if tier == "thorough":
        out += [["enum2", i, b["shards"]] for i in range(b["shards"])]
        out += [["fuzz", i] for i in range(8)]
    out += [["hyp", i] for i in range(b["hyp_units"])]
    out.append(["bounded_decl"])
    return out


@st.composite
def case_strategy(draw):
    src = HypSource(draw)
    D = gen_type(src, 1 + src.choice(3))
    mode = ["good", "bad", "bad", "pool"][src.choice(4)]
    if mode == "pool":
        v = GENERAL_POOL[src.choice(len(GENERAL_POOL))]
    else:
        v = gen_value(src, D, mode == "good")
    return {"type": D, "value": v, "mode": mode}


def _enum(ctx, types, shard, nshards):
    for i, D in enumerate(types):
        if i % nshards != shard:
            continue
        for v, mode in derived_values(D):
            run_case(ctx, {"type": D, "value": v, "mode": mode})
        for v in GENERAL_POOL:
            run_case(ctx, {"type": D, "value": v, "mode": "pool"})


def run_unit(ctx, unit):
    b = BOUNDS[ctx.tier]
    kind = unit[0]
    if kind == "enum1":
        _enum(ctx, depth1_types(BASE), unit[1], unit[2])
        ctx.count("enum1_shards_completed")
    elif kind == "enum2":
        _enum(ctx, depth2_types(depth1_types(REDUCED)), unit[1], unit[2])
        ctx.count("enum2_shards_completed")
    elif kind == "hyp":
        run_given(ctx, lambda case: run_case(ctx, case), {"case": case_strategy()}, b["examples"], ctx.seed * 1000 + unit[1])
    elif kind == "bounded_decl":
        run_bounded_decl(ctx)
    elif kind == "fuzz":
        from vf.fuzz import common

        common.run_fuzz_unit(ctx, "c15", unit[1], decode_bytes, run_case, runs=150000, max_len=96)
    else:
        raise AssertionError(unit)


def run_bounded_decl(ctx):
    """bounded(): 'only one of ge/gt can be specified at the same time, and same for le/lt' - for every combination of the four
    bounds over {absent, 0, 5} (zero bounds are bounds). A declaration that is accepted must then decide values by all the
    bounds it was given."""
    e = env()
    vals = [None, 0, 5]
    for ge, gt, le, lt in itertools.product(vals, repeat=4):
        kw = {k: v for k, v in (("ge", ge), ("gt", gt), ("le", le), ("lt", lt)) if v is not None}
        case = {"bounded_decl": kw}
        clash = (ge is not None and gt is not None) or (le is not None and lt is not None)
        try:
            T = e["bounded"](int, **kw)
        except ValueError:
            if not clash:
                ctx.fail("bounded_decl:refused", case, f"bounded(int, **{kw}) raised ValueError although at most one bound per side is given")
                return
            ctx.case(case, True)
            continue
        if clash:
            ctx.fail("bounded_decl:clash_accepted", case, f"bounded(int, **{kw}) was accepted although two bounds of the same side are given")
            return
        for v in (-1, 0, 1, 4, 5, 6):
            want = conforms(v, ["bounded", "int", kw])
            got = e["check_type"](v, T)
            if got != want:
                ctx.fail("bounded_decl:decides_differently", case, f"check_type({v}, bounded(int, **{kw})) -> {got}, the bounds say {want}")
                return
        ctx.case(case, bool(kw))
    ctx.count("bounded_decl_completed")


def coverage_extra(tier, counters):
    acc, rej = counters.get("accepted", 0), counters.get("rejected", 0)
    return {
        "exhaustive": True,
        "exhaustive_scope": "every annotation of depth <= 1 over the full base pool"
        + (" and every depth-2 annotation over the reduced base pool" if tier == "thorough" else "")
        + " x (derived conforming/near-miss values + the whole general value pool)",
        "accept_rate": round(acc / max(1, acc + rej), 3),
    }


def decode_bytes(data: bytes):
    if len(data) < 3:
        return None
    src = ByteSource(data)
    D = gen_type(src, 1 + src.choice(3))
    mode = ["good", "bad", "bad", "pool"][src.choice(4)]
    if mode == "pool":
        v = GENERAL_POOL[src.choice(len(GENERAL_POOL))]
    else:
        v = gen_value(src, D, mode == "good")
    return {"type": D, "value": v, "mode": mode}


def replay(ctx, case):
    if "bounded_decl" in case:
        return run_bounded_decl(ctx)
    run_case(ctx, case)
