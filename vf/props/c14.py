"""
C14 - KeyedSet is a set of items identified by key.

Oracle: reference dict key -> latest item with the documented membership rule
  x in S  <=>  x is a key of S, or key(x) is a key of S and (not enforce or S[key(x)] == x)
Binary operators follow set algebra on keys; every result must itself be a
coherent KeyedSet (one item per key under the same key function).
"""

from __future__ import annotations

import itertools
import typing

from hypothesis import strategies as st

from vf.runner import run_given

ID = "C14"
LEVEL = "exploration"
RULE = (
    "cases = (item universe, enforce_item_equivalence, typed?, initial set, op sequence); every single op (incl. every "
    "binary operator against KeyedSet and built-in set operands of <= 2 items) from every set of <= N keys is enumerated "
    "exhaustively, longer sequences are Hypothesis-drawn op lists. Oracle = reference dict key->item with the documented "
    "membership rule and key algebra. Non-trivial = >= 2 ops with a key collision (add/operand hitting an existing key) or "
    "an op addressed by item where item != key; distinct = canonical JSON of the case."
)
ASSUMPTIONS = [
    "operands under enforce_item_equivalence=True carry for every key shared with the receiver the receiver's own payload; built-in "
    "set operands may carry a different payload under a shared key (the statement says key algebra) and, for universes of unhashable "
    "items, the empty built-in set",
    "for shared keys with different payloads (non-enforcing KeyedSet operands) only the key set of |, &, ^ results is asserted "
    "and that each result item is one of the two candidates; in-place |= takes the operand's item (latest added wins)",
    "s[item] with an unequal item under enforcement may return the stored item or raise KeyError (docs silent)",
    "== is asserted True for equal key->item mappings, False for different key sets, unconstrained otherwise",
    "typing / enforcement flag of operator results is not asserted, only their key coherence",
]

_ENV = {}
KEYS = ["", "b", "c", "d"]  # the empty string is a legal (falsy) key / self-keyed item


def env():
    if not _ENV:
        from spec_classes import spec_class
        from spec_classes.types import KeyedSet

        @spec_class(key="k", bootstrap=True)
        class It:
            k: str
            v: int = 0

        _ENV.update(It=It, KeyedSet=KeyedSet)
    return _ENV


def _first(t):
    # a key function is only defined on items; like the built-in default it
    # signals "not an item" with TypeError (which the containers handle)
    if not isinstance(t, (tuple, list)):
        raise TypeError("not an item")
    return t[0]


class Universe:
    def __init__(self, name, nkeys):
        self.name = name
        self.nkeys = nkeys
        self.payloads = [0] if name in ("self", "selfint") else [0, 1]
        self.hashable = name in ("self", "selfint", "tuple")

    def item(self, ki, p):
        n = self.name
        if n == "self":
            return KEYS[ki]
        if n == "selfint":
            return ki  # 0 is falsy
        if n == "tuple":
            return (KEYS[ki], p)
        if n == "list":
            return [KEYS[ki], p]
        return env()["It"](KEYS[ki], v=p)

    def keyfn(self):
        return _first if self.name in ("tuple", "list") else None

    def key(self, ki):
        return ki if self.name == "selfint" else KEYS[ki]

    def model_key(self, item):
        if self.name in ("self", "selfint"):
            return item
        if self.name in ("tuple", "list"):
            return item[0]
        return item.k

    def conforms(self, x):
        item_t = {"self": str, "selfint": int, "tuple": tuple, "list": list}.get(self.name) or env()["It"]
        key_t = int if self.name == "selfint" else str
        try:
            if self.name == "tuple" and not (len(x) == 2 and isinstance(x[1], int)):
                return False  # (typed as Tuple[str, int])
            return isinstance(x, item_t) and isinstance(self.model_key(x), key_t)
        except Exception:
            return False

    def alias(self):
        KS = env()["KeyedSet"]
        # ("self": the ITEM type also admits floats - the bad item 7.5 is refused for its key, which is no str)
        return {"self": KS[typing.Union[str, float], str], "selfint": KS[int, int], "tuple": KS[typing.Tuple[str, int], str], "list": KS[list, str], "spec": KS[env()["It"], str]}[self.name]

    def bad_items(self):
        return {
            "self": [7.5],
            "selfint": ["zz"],
            # (the last two are ill-typed in their PAYLOAD, under keys that may well be present already)
            "tuple": [(99, 0), "zz", ("", "zz"), ("b", "zz")],
            "list": [[99, 0], ("a", 0)],
            "spec": ["zz"],
        }[self.name]


def universes(nkeys):
    return {n: Universe(n, nkeys) for n in ("self", "selfint", "tuple", "list", "spec")}


def build(u, enforce, typed, pairs):
    KS = env()["KeyedSet"]
    items = [u.item(ki, p) for ki, p in pairs]
    ctor = u.alias() if typed else KS
    return ctor(items, key=u.keyfn(), enforce_item_equivalence=enforce)


# ---------------------------------------------------------------------------


def observe(u, s):
    obs = {
        "len": len(s),
        "items": {repr(k): v for k, v in s.items()},
        "iter": sorted(map(repr, s)),
        "keys": sorted(map(repr, s.keys())),
        "per_key": {},
        "membership": {},
    }
    # key coherence: each stored item's key (under the key function) is its dict key
    obs["coherent"] = all(s.key(v) == k for k, v in s.items())
    for ki in range(u.nkeys):
        k = u.key(ki)
        d = {"in": k in s, "get": s.get(k, "<none>")}
        try:
            d["getitem"] = s[k]
        except (KeyError, TypeError):  # TypeError: the key function is not defined on a bare (absent) key
            d["getitem"] = "KeyError"
        obs["per_key"][repr(k)] = d
        for p in u.payloads:
            obs["membership"][f"{ki},{p}"] = u.item(ki, p) in s
    return obs


def model_contains_item(u, enforce, m, item):
    k = u.model_key(item)
    if u.name in ("self", "selfint"):
        return k in m
    return k in m and (not enforce or m[k] == item)


def model_observe(u, enforce, m):
    obs = {
        "len": len(m),
        "items": {repr(k): v for k, v in m.items()},
        "iter": sorted(map(repr, m.values())),
        "keys": sorted(map(repr, m)),
        "per_key": {},
        "membership": {},
        "coherent": True,
    }
    for ki in range(u.nkeys):
        k = u.key(ki)
        obs["per_key"][repr(k)] = {"in": k in m, "get": m.get(k, "<none>"), "getitem": m[k] if k in m else "KeyError"}
        for p in u.payloads:
            obs["membership"][f"{ki},{p}"] = model_contains_item(u, enforce, m, u.item(ki, p))
    return obs


# ---------------------------------------------------------------------------
# ops: [name, arg]; arg for element ops = ["key", ki] | ["item", ki, p] | ["bad", j] | ["absent"]
#      arg for binary ops = [kind ("ks"|"set"), [[ki, p|"same"], ...]]

ELEMENT_OPS = ["add", "discard", "remove", "contains", "getitem"]
BINARY_NEW = ["or", "and", "sub", "xor", "ror", "rand", "rsub", "rxor"]  # r*: the built-in set is the LEFT operand (reflected methods)
REFLECTED = ("ror", "rand", "rsub", "rxor")
BINARY_CMP = ["le", "lt", "ge", "gt", "eq", "ne", "isdisjoint"]
BINARY_INPLACE = ["ior", "iand", "isub", "ixor"]
CLEAN = (KeyError, ValueError, TypeError)


def resolve_arg(u, arg):
    if arg[0] == "key":
        return u.key(arg[1]), "key"
    if arg[0] == "item":
        return u.item(arg[1], arg[2]), "item"
    if arg[0] == "bad":
        return u.bad_items()[arg[1] % len(u.bad_items())], "bad"
    return "zz-absent", "absent"


def resolve_operand(u, enforce, typed, m, operand, keep_payload=False):
    kind, pairs = operand
    seen, items = set(), []
    if kind == "setdup":
        # a built-in set holding several items with ONE key (they differ in payload): as an operand of a comparison it stands
        # for its keys, however many items carry each
        items = [u.item(ki, p) for ki, p in pairs]
        return set(items), items
    for ki, p in pairs:
        if ki in seen:
            continue
        seen.add(ki)
        k = u.key(ki)
        if (p == "same" or (enforce and not keep_payload)) and k in m:
            items.append(m[k])
        else:
            items.append(u.item(ki, 0 if p == "same" else p))
    if kind == "set":
        return set(items), items
    if kind == "fset":
        return frozenset(items), items
    return build(u, enforce, typed, []).__class__(items, key=u.keyfn(), enforce_item_equivalence=enforce), items


def run_case(ctx, case):
    if "stale" in case:
        return run_stale(ctx, case)
    u = universes(case["nkeys"])[case["universe"]]
    enforce, typed = case["enforce"], case["typed"]
    KS = env()["KeyedSet"]
    m = {}
    ctor_exc = None
    for ki, p in case["init"]:
        it = u.item(ki, p)
        if enforce and u.key(ki) in m and m[u.key(ki)] != it:
            ctor_exc = ValueError
            break
        m[u.key(ki)] = it
    try:
        s = build(u, enforce, typed, case["init"])
    except ValueError as e:
        if ctor_exc is None:
            ctx.fail("construct:unexpected_raise:ValueError", case, f"constructor raised {e!r}")
        ctx.case(case, False)
        return
    if ctor_exc is not None:
        ctx.fail("construct:missing_raise:ValueError", case, "constructor accepted unequal items under one key with enforce_item_equivalence=True")
        return

    def check_obs(name, clause):
        exp, got = model_observe(u, enforce, m), observe(u, s)
        if exp != got:
            diff = [k for k in exp if exp[k] != got.get(k)]
            ctx.fail(f"{name}:{clause}:{diff[0]}", case, f"after {name}: {diff} differ: expected {exp[diff[0]]!r}, got {got[diff[0]]!r}")
            return False
        return True

    if not check_obs("construct", "state"):
        return
    collisions = by_item = 0
    for op in case["ops"]:
        name = op[0]
        tag = name
        try:
            if name in ELEMENT_OPS:
                x, xkind = resolve_arg(u, op[1])
                tag = f"{name}:{xkind}"
                if name == "add":
                    if xkind in ("key", "absent") and u.name not in ("self", "selfint"):
                        continue  # adding a bare key to a set of non-key items is not a meaningful op
                    if xkind == "absent":
                        continue
                    expect_exc = None
                    if xkind == "bad":
                        if not typed:
                            continue
                        expect_exc = TypeError
                    else:
                        k = u.model_key(x)
                        if k in m:
                            collisions += 1
                        if enforce and k in m and m[k] != x:
                            expect_exc = ValueError
                    try:
                        r = s.add(x)
                    except CLEAN as e:
                        if expect_exc is None or not isinstance(e, expect_exc):
                            ctx.fail(f"{tag}:unexpected_raise:{type(e).__name__}", case, f"add({x!r}) raised {e!r}")
                            return
                        if not check_obs(tag, "changed_on_raise"):
                            return
                        ctx.count(f"op:{tag}:raise")
                        continue
                    if expect_exc is not None:
                        ctx.fail(f"{tag}:missing_raise:{expect_exc.__name__}", case, f"add({x!r}) on {m!r} did not raise")
                        return
                    m[k] = x
                elif name in ("discard", "remove", "contains", "getitem"):
                    if xkind == "bad":
                        continue  # wrong-typed values are only meaningful for add() on a typed set
                    # does x address a stored item?
                    hit_key = None
                    if xkind == "key" or (xkind == "item" and u.name in ("self", "selfint")):
                        hit_key = x if x in m else None
                    elif xkind == "item":
                        by_item += 1
                        if model_contains_item(u, enforce, m, x):
                            hit_key = u.model_key(x)
                    ambiguous = xkind == "item" and u.name not in ("self", "selfint") and enforce and u.model_key(x) in m and m[u.model_key(x)] != x
                    if name == "contains":
                        r = x in s
                        if r != (hit_key is not None):
                            ctx.fail(f"{tag}:result", case, f"{x!r} in s -> {r}, model {m!r}")
                            return
                    elif name == "getitem":
                        try:
                            r = s[x]
                        except CLEAN as e:
                            if hit_key is not None or not isinstance(e, (KeyError, TypeError)):
                                ctx.fail(f"{tag}:unexpected_raise:{type(e).__name__}", case, f"s[{x!r}] raised {e!r}, model {m!r}")
                                return
                            r = None
                        else:
                            if hit_key is None and not ambiguous:
                                ctx.fail(f"{tag}:missing_raise:KeyError", case, f"s[{x!r}] returned {r!r}, model {m!r}")
                                return
                            want = m[hit_key] if hit_key is not None else m[u.model_key(x)]
                            if r != want:
                                ctx.fail(f"{tag}:result", case, f"s[{x!r}] returned {r!r}, expected {want!r}")
                                return
                    elif name == "discard":
                        r = s.discard(x)
                        if hit_key is not None:
                            del m[hit_key]
                    else:  # remove
                        try:
                            s.remove(x)
                        except CLEAN as e:
                            if hit_key is not None or not isinstance(e, KeyError):
                                ctx.fail(f"{tag}:unexpected_raise:{type(e).__name__}", case, f"remove({x!r}) raised {e!r}, model {m!r}")
                                return
                            if not check_obs(tag, "changed_on_raise"):
                                return
                            ctx.count(f"op:{tag}:raise")
                            continue
                        if hit_key is None:
                            ctx.fail(f"{tag}:missing_raise:KeyError", case, f"remove({x!r}) succeeded, model {m!r}")
                            return
                        del m[hit_key]
            elif name == "pop":
                try:
                    r = s.pop()
                except KeyError:
                    if m:
                        ctx.fail("pop:unexpected_raise:KeyError", case, f"pop() raised on {m!r}")
                        return
                    ctx.count("op:pop:raise")
                    continue
                k = u.model_key(r)
                if k not in m or m[k] != r:
                    ctx.fail("pop:result", case, f"pop() returned {r!r} not in {m!r}")
                    return
                del m[k]
            elif name == "clear":
                s.clear()
                m.clear()
            elif name == "ior_refused":
                # |= with a plain sequence whose LAST item is refused (ill-typed for a typed set / cannot be keyed): all or
                # nothing - also for the items under keys that were already present and had been replaced on the way
                operand = [u.item(ki, 0 if p == "same" else p) for ki, p in op[1]] + [u.bad_items()[op[2] % len(u.bad_items())]]
                if enforce and any(u.key(ki) in m and m[u.key(ki)] != u.item(ki, 0 if p == "same" else p) for ki, p in op[1]):
                    continue  # (an unequal payload is refused first, under enforcement: the element-level rule, checked above)
                try:
                    s |= operand
                except CLEAN:
                    if not check_obs("ior_refused", "changed_on_raise"):
                        return
                    ctx.count("op:ior_refused:raise")
                    continue
                ctx.count("op:ior_refused:accepted")  # (an untyped set takes anything its key function can key)
                ctx.case(case, False)
                return
            elif name in BINARY_NEW + BINARY_CMP + BINARY_INPLACE:
                kind = op[1][0]
                if kind == "setdup" and enforce and name != "isub":
                    continue  # (under enforcement membership also asks for an equal payload: one key with two payloads has no key-only reading)
                if kind in ("set", "fset", "setdup") and not u.hashable and op[1][1]:
                    continue  # (a built-in set cannot hold unhashable items - but the empty built-in set is a legal operand)
                # |= and ^= ADD items: under enforcement an unequal item under an existing key makes the whole operation raise
                # ValueError "and changes nothing" - so these two also get operands whose payloads differ
                clash_ok = enforce and name in ("ior", "ixor") and kind == "ks"
                other, oitems = resolve_operand(u, enforce, typed, m, op[1], keep_payload=clash_ok)
                tag = f"{name}:{kind}"
                om = {u.model_key(x): x for x in oitems}
                shared = set(m) & set(om)
                if shared:
                    collisions += 1
                ka, kb = set(m), set(om)
                if name in REFLECTED and kind != "set":
                    continue  # with a KeyedSet on the left its own (non-reflected) method answers
                if name in BINARY_NEW:
                    compute = {"or": lambda o: s | o, "and": lambda o: s & o, "sub": lambda o: s - o, "xor": lambda o: s ^ o,
                               "ror": lambda o: o | s, "rand": lambda o: o & s, "rsub": lambda o: o - s, "rxor": lambda o: o ^ s}[name]
                    r = compute(other)
                    want = {"or": ka | kb, "and": ka & kb, "sub": ka - kb, "xor": ka ^ kb,
                            "ror": ka | kb, "rand": ka & kb, "rsub": kb - ka, "rxor": ka ^ kb}[name]
                    if not isinstance(r, KS):
                        ctx.fail(f"{tag}:result_type", case, f"{name} returned {type(r).__name__}")
                        return
                    rkeys = [u.model_key(x) for x in r]
                    if sorted(rkeys) != sorted(want) or len(r) != len(want):
                        ctx.fail(f"{tag}:result_keys", case, f"{name}: result items {list(r)!r}; expected keys {sorted(want)} (A={m!r}, B={oitems!r})")
                        return
                    for x in r:
                        k = u.model_key(x)
                        cands = [c[k] for c in (m, om) if k in c]
                        if name == "sub":
                            cands = [m[k]]
                        if name == "rsub":
                            cands = [om[k]]
                        if not any(x == c for c in cands):
                            ctx.fail(f"{tag}:result_items", case, f"{name}: result item {x!r} is none of {cands!r}")
                            return
                    # coherence of the result as a KeyedSet under the same key function
                    if sorted(map(repr, r.keys())) != sorted(map(repr, want)) or not all(k in r and r[k] == x for k, x in zip(rkeys, list(r))):
                        ctx.fail(f"{tag}:result_index", case, f"{name}: result keys() {list(r.keys())!r} disagree with its items {list(r)!r}")
                        return
                    # a result that presents itself as parameterised (repr / refusing an ill-typed add) holds conforming
                    # items only - also when the operand carried ill-typed ones (the docs leave open whether such a
                    # result is parameterised at all; a failing operation is fine too)
                    if typed:
                        for bad in u.bad_items():
                            try:
                                if kind == "set":
                                    hash(bad)
                                    obad = set(oitems) | {bad}
                                else:
                                    obad = KS(list(oitems) + [bad], key=u.keyfn(), enforce_item_equivalence=enforce)
                                r2 = compute(obad)
                            except CLEAN:
                                ctx.count("typed_result_probe:raised")
                                continue
                            if not isinstance(r2, KS):
                                continue
                            wrong = [x for x in r2 if not u.conforms(x)]
                            claims = repr(r2).startswith("KeyedSet[")
                            if not claims:
                                try:
                                    r2.add(bad)
                                except TypeError:
                                    claims = True
                                except CLEAN:
                                    pass
                            ctx.count(f"typed_result_probe:{'typed' if claims else 'untyped'}")
                            if claims and wrong:
                                ctx.fail(f"{tag}:typed_result_holds_illtyped", case, f"{name} with an operand holding {bad!r}: the result {r2!r} presents itself as parameterised but holds {wrong!r}")
                                return
                elif name in BINARY_CMP:
                    r = {
                        "le": lambda: s <= other, "lt": lambda: s < other, "ge": lambda: s >= other, "gt": lambda: s > other,
                        "eq": lambda: s == other, "ne": lambda: s != other, "isdisjoint": lambda: s.isdisjoint(other),
                    }[name]()
                    same_map = ka == kb and all(m[k] == om[k] for k in ka)
                    dup = kind == "setdup"
                    want = {
                        "le": ka <= kb, "lt": ka < kb, "ge": ka >= kb, "gt": ka > kb,
                        "eq": (True if same_map else (False if ka != kb else None)) if not dup else (False if ka != kb else None),
                        "ne": (False if same_map else (True if ka != kb else None)) if not dup else (True if ka != kb else None),
                        "isdisjoint": not (ka & kb),
                    }[name]
                    if want is not None and r is not want:
                        ctx.fail(f"{tag}:result", case, f"{name}: got {r!r}, expected {want!r} (A={m!r}, B={oitems!r})")
                        return
                else:
                    keep = s
                    clash = clash_ok and any(k in m and m[k] != x for k, x in om.items()) and (name == "ior" or False)
                    if clash:
                        try:
                            s |= other
                        except ValueError:
                            if not check_obs(tag, "changed_on_raise"):
                                return
                            ctx.count(f"op:{tag}:raise")
                            continue
                        ctx.fail(f"{tag}:missing_raise", case, f"|= with an unequal item under an existing key (enforced) did not raise (A={m!r}, B={oitems!r})")
                        return
                    if name == "ixor" and clash_ok and any(k in m and m[k] != x for k, x in om.items()):
                        continue  # (for ^= a shared key means removal; whether an unequal payload counts as "the same member" is the documented grey zone)
                    if name == "ior":
                        s |= other
                        for k, x in om.items():
                            m[k] = x
                    elif name == "iand":
                        s &= other
                        for k in list(m):
                            if k not in kb:
                                del m[k]
                    elif name == "isub":
                        s -= other
                        if kind == "setdup":
                            # -= discards every element of the operand, one by one, by the membership rule (under enforcement: a
                            # stored item goes only if the operand holds an EQUAL one - which it may, next to unequal ones)
                            for x in oitems:
                                kx = u.model_key(x)
                                if kx in m and (not enforce or m[kx] == x):
                                    del m[kx]
                        else:
                            for k in list(m):
                                if k in kb:
                                    del m[k]
                    else:
                        s ^= other
                        for k, x in om.items():
                            if k in ka:
                                del m[k]
                            else:
                                m[k] = x
                    if s is not keep:
                        ctx.fail(f"{tag}:identity", case, "in-place operator returned a different object")
                        return
            else:
                raise AssertionError(op)
        except CLEAN as e:
            ctx.fail(f"{tag}:unexpected_raise:{type(e).__name__}", case, f"{op} raised {e!r} (model {m!r})")
            return
        if not check_obs(tag, "state"):
            return
        ctx.count(f"op:{tag}:ok")
    ctx.case(case, len(case["ops"]) >= 2 and (collisions > 0 or by_item > 0))


# ---------------------------------------------------------------------------


def element_args(u, typed):
    args = [["key", ki] for ki in range(u.nkeys)]
    args += [["item", ki, p] for ki in range(u.nkeys) for p in u.payloads]
    args += [["bad", j] for j in range(len(u.bad_items()))]
    args.append(["absent"])
    return args


def operands(u, maxn):
    out = []
    pool = [[ki, p] for ki in range(u.nkeys) for p in (u.payloads + ["same"])]
    for n in range(maxn + 1):
        for combo in itertools.combinations(pool, n):
            if len({c[0] for c in combo}) == n:
                out.append([list(c) for c in combo])
    return out


def all_ops(u, typed, maxn_operand):
    ops = []
    for name in ELEMENT_OPS:
        for a in element_args(u, typed):
            ops.append([name, a])
    ops += [["pop"], ["clear"]]
    for name in BINARY_NEW + BINARY_CMP + BINARY_INPLACE:
        for kind in ("ks", "set"):
            for operand in operands(u, maxn_operand):
                ops.append([name, [kind, operand]])
    for name in BINARY_CMP:  # the other built-in set type
        for operand in operands(u, maxn_operand):
            ops.append([name, ["fset", operand]])
    for ki in range(u.nkeys):
        for p in u.payloads:
            for b in range(len(u.bad_items())):
                ops.append(["ior_refused", [[ki, p]], b])
                ops.append(["ior_refused", [[(ki + 1) % u.nkeys, 0], [ki, p]], b])
    if len(u.payloads) > 1:
        for ki in range(u.nkeys):
            ops.append(["isub", ["setdup", [[ki, 0], [ki, 1]]]])
            ops.append(["isub", ["setdup", [[ki, 1], [ki, 0], [(ki + 1) % u.nkeys, 0]]]])
        for name in BINARY_CMP:
            for ki in range(u.nkeys):
                ops.append([name, ["setdup", [[ki, 0], [ki, 1]]]])
                ops.append([name, ["setdup", [[ki, 0], [ki, 1], [(ki + 1) % u.nkeys, 0]]]])
    return ops


def containers(u, maxn, dups=True):
    for n in range(maxn + 1):
        for keys in itertools.permutations(range(u.nkeys), n):
            for ps in itertools.product(u.payloads, repeat=n):
                yield [[k, p] for k, p in zip(keys, ps)]
    # initial sequences that repeat a key (later item wins, or ValueError under enforcement)
    for ki in range(min(2, u.nkeys) if dups else 0):
        for p, q in itertools.product(u.payloads, repeat=2):
            yield [[ki, p], [ki, q]]
            yield [[ki, p], [(ki + 1) % u.nkeys, 0], [ki, q]]


BOUNDS = {
    "quick": dict(nkeys=3, n1=2, operand=1, n2=0, examples=300, hyp_units=16),
    "thorough": dict(nkeys=4, n1=3, operand=1, n2=0, examples=6000, hyp_units=32),
}


# ---------------------------------------------------------------------------
# an item's key changes behind the container's back (its key attribute is assigned after it was added): every operation still
# TERMINATES, and what it leaves behind is a set whose views agree

STALE_OPS = ["clear", "pop", "discard_item", "discard_oldkey", "remove_item", "contains", "iter", "isub_item", "iand_other", "ior_item", "add_again", "len"]


class _Hang(BaseException):
    pass


def run_stale(ctx, case):
    import signal

    from spec_classes import spec_class

    KS = env()["KeyedSet"]
    if "Mut" not in _ENV:
        _ENV["Mut"] = spec_class(key="k", bootstrap=True)(type("Mut", (), {"__annotations__": {"k": str, "v": int}, "v": 0, "__module__": "vf.generated"}))
    Mut = _ENV["Mut"]
    n, which, enforce, seq = case["stale"]["n"], case["stale"]["which"], case["stale"]["enforce"], case["ops"]
    items = [Mut(KEYS[i] or "e", v=i) for i in range(n)]
    s = KS(items, enforce_item_equivalence=enforce)
    victim = items[which % n]
    old = victim.k
    victim.k = "zz-stale"

    def on_alarm(*_a):
        raise _Hang()

    prev = signal.signal(signal.SIGALRM, on_alarm)
    try:
        for i, op in enumerate(seq):
            signal.alarm(20)
            try:
                if op == "clear":
                    s.clear()
                    if len(s) or list(s):
                        ctx.fail("stale|clear:not_empty", case, f"clear() left {list(s)!r}")
                        return
                elif op == "pop":
                    before = len(s)
                    try:
                        x = s.pop()
                    except KeyError:
                        if before:
                            ctx.fail("stale|pop:raises_on_nonempty", case, f"pop() raised KeyError on a set of {before} items")
                            return
                    else:
                        if len(s) != before - 1:  # (the object itself may legitimately be held twice: re-added under its new key)
                            ctx.fail("stale|pop:not_removed", case, f"pop() returned {x!r} but the set still holds {list(s)!r}")
                            return
                elif op == "discard_item":
                    s.discard(victim)
                elif op == "discard_oldkey":
                    s.discard(old)
                elif op == "remove_item":
                    try:
                        s.remove(victim)
                    except KeyError:
                        pass
                elif op == "contains":
                    (victim in s), (old in s), ("zz-stale" in s)
                elif op == "iter":
                    list(s), list(s.keys()), list(s.items())
                elif op == "isub_item":
                    s -= [victim]
                elif op == "iand_other":
                    s &= KS([it for it in items if it is not victim])
                elif op == "ior_item":
                    try:
                        s |= [victim]
                    except ValueError:
                        pass
                elif op == "add_again":
                    try:
                        s.add(victim)
                    except ValueError:
                        pass
                elif op == "len":
                    len(s)
            except _Hang:
                ctx.fail(f"stale|{op}:does_not_terminate", case, f"step {i} {op} on a KeyedSet holding an item whose key went stale did not return within 20 s")
                return
            except CLEAN as e:
                ctx.fail(f"stale|{op}:raises:{type(e).__name__}", case, f"step {i} {op} raised {e!r}")
                return
            finally:
                signal.alarm(0)
            if not (len(s) == len(list(s)) == len(list(s.keys())) == len(list(s.items()))):
                ctx.fail(f"stale|{op}:views_disagree", case, f"after {op}: len {len(s)}, items {list(s)!r}, keys {list(s.keys())!r}")
                return
    finally:
        signal.signal(signal.SIGALRM, prev)
    ctx.case(case, len(seq) >= 1)


def stale_cases(maxlen):
    for n in (1, 2, 3):
        for which in range(n):
            for enforce in (False, True):
                for k in range(1, maxlen + 1):
                    for seq in itertools.product(STALE_OPS, repeat=k):
                        yield {"stale": {"n": n, "which": which, "enforce": enforce}, "ops": list(seq)}


def units(tier, seed):
    b = BOUNDS[tier]
    out = [["stale", i, 4] for i in range(4)]
    for uname in universes(b["nkeys"]):
        for enforce in (False, True):
            for typed in (False, True):
                out.append(["enum1", uname, enforce, typed])
                out.append(["enum2", uname, enforce, typed])
    out += [["hyp", i] for i in range(b["hyp_units"])]
    if tier == "thorough":
        out += [["fuzz", i] for i in range(8)]
    return out


def op_strategy(u, typed):
    arg = st.sampled_from(element_args(u, typed))
    pair = st.tuples(st.integers(0, u.nkeys - 1), st.sampled_from(u.payloads + ["same"])).map(list)
    operand = st.tuples(st.sampled_from(["ks", "ks", "set"]), st.lists(pair, max_size=4)).map(list)
    return st.one_of(
        st.tuples(st.sampled_from(ELEMENT_OPS + ["add", "add"]), arg),
        st.tuples(st.sampled_from(["pop", "clear", "pop"])),
        st.tuples(st.sampled_from(BINARY_NEW + BINARY_CMP + BINARY_INPLACE), operand),
    ).map(list)


@st.composite
def case_strategy(draw, nkeys):
    us = universes(nkeys)
    uname = draw(st.sampled_from(sorted(us)))
    u = us[uname]
    typed = draw(st.booleans())
    enforce = draw(st.booleans())
    init = draw(st.lists(st.tuples(st.integers(0, u.nkeys - 1), st.sampled_from(u.payloads)).map(list), max_size=u.nkeys + 1))
    ops = draw(st.lists(op_strategy(u, typed), min_size=1, max_size=25))
    return {"universe": uname, "nkeys": nkeys, "enforce": enforce, "typed": typed, "init": init, "ops": ops}


MUTATING = {"add", "discard", "remove", "pop", "clear"} | set(BINARY_INPLACE)


def run_unit(ctx, unit):
    b = BOUNDS[ctx.tier]
    kind = unit[0]
    if kind == "stale":
        for j, case in enumerate(stale_cases(3 if ctx.tier == "thorough" else 2)):
            if j % unit[2] == unit[1]:
                run_stale(ctx, case)
                if ctx.failures:
                    return
        ctx.count("stale_shards_completed")
        return
    if kind in ("enum1", "enum2"):
        u = universes(b["nkeys"])[unit[1]]
        base = {"universe": unit[1], "nkeys": b["nkeys"], "enforce": unit[2], "typed": unit[3]}
        ops = all_ops(u, unit[3], b["operand"])
        if kind == "enum1":
            for init in containers(u, b["n1"]):
                for op in ops:
                    run_case(ctx, dict(base, init=init, ops=[op]))
        else:
            small = all_ops(u, unit[3], 1)
            for init in containers(u, b["n2"], dups=False):
                for op1 in small:
                    if op1[0] not in MUTATING or (ctx.tier == "quick" and op1[0] not in ("add", "ior")):
                        continue
                    for op2 in small:
                        run_case(ctx, dict(base, init=init, ops=[op1, op2]))
        ctx.count(f"{kind}_units_completed")
    elif kind == "hyp":
        run_given(ctx, lambda case: run_case(ctx, case), {"case": case_strategy(b["nkeys"])}, b["examples"], ctx.seed * 1000 + unit[1])
    elif kind == "fuzz":
        from vf.fuzz import common

        common.run_fuzz_unit(ctx, "c14", unit[1], decode_bytes, run_case, runs=60000)
    else:
        raise AssertionError(unit)


def coverage_extra(tier, counters):
    b = BOUNDS[tier]
    return {
        "exhaustive": True,
        "exhaustive_scope": f"every single op (incl. all binary operators x KeyedSet/built-in operands of <= {b['operand']} items) from every set "
        f"of <= {b['n1']} items over {b['nkeys']} keys x 5 universes x enforce x typed; every (mutating, any) 2-op sequence from sets of "
        f"<= {b['n2']} items (operands <= 1 item); Hypothesis op lists (<= 25 ops) beyond",
    }


def decode_bytes(data: bytes):
    if len(data) < 4:
        return None
    nkeys = 4
    names = sorted(universes(nkeys))
    uname = names[data[0] % len(names)]
    u = universes(nkeys)[uname]
    enforce, typed = bool(data[1] & 1), bool(data[1] & 2)
    n = data[2] % (nkeys + 1)
    perm = list(itertools.permutations(range(nkeys)))[data[3] % 24]
    init = [[k, u.payloads[(data[3] >> (3 + i)) % len(u.payloads)]] for i, k in enumerate(perm[:n])]
    allnames = ELEMENT_OPS + ["add", "pop", "clear"] + BINARY_NEW + BINARY_CMP + BINARY_INPLACE
    args = element_args(u, typed)
    ops = []
    body = data[4:]
    i = 0
    while i + 3 <= len(body) and len(ops) < 30:
        o, a, c = body[i : i + 3]
        i += 3
        name = allnames[o % len(allnames)]
        if name in ELEMENT_OPS:
            ops.append([name, args[a % len(args)]])
        elif name in ("pop", "clear"):
            ops.append([name])
        else:
            pl = u.payloads + ["same"]
            pairs = [[a % nkeys, pl[(a >> 2) % len(pl)]], [c % nkeys, pl[(c >> 2) % len(pl)]]][: 1 + (c >> 7)]
            ops.append([name, ["set" if a & 128 else "ks", pairs]])
    if not ops:
        return None
    return {"universe": uname, "nkeys": nkeys, "enforce": enforce, "typed": typed, "init": init, "ops": ops}


def replay(ctx, case):
    run_case(ctx, case)
