"""Shared scaffolding for the instance-level properties (C01-C11, C16, C17)."""
from __future__ import annotations

from hypothesis import strategies as st

from vf import grammar, ops


@st.composite
def world_history(draw, profile, max_ops=8, probe=None, **genkw):
    """case = {"world": desc, "ops": [op...], "probe": op?}"""
    src = grammar.HypSource(draw)
    prof = grammar.PROFILES[profile] if isinstance(profile, str) else profile
    wd = grammar.gen_world(src, prof)
    info = grammar.world_info(wd)
    hist = ops.gen_history(src, info, max_ops=max_ops, **genkw)
    case = {"world": wd, "ops": hist}
    if probe is not None:
        case["probe"] = probe(src, info)
    return case


def op_family(op):
    t = op["t"]
    if t == "call":
        m = op["m"]
        verb = m.split("_", 1)[0]
        return verb if "_" in m else m
    if t == "nested":
        return "nested:" + op_family(op["op"])
    return t


def op_route(world, op, cname=None):
    """Root-cause shaped signature of an op: helper verb x (scalar|element family) x attribute kind."""
    t = op["t"]
    if t == "nested":
        return "nested." + op_route(world, op["op"], _nested_class(world, op, cname))
    attrs = world.attrs(cname)
    if t in ("set", "del"):
        a = attrs.get(op["attr"])
        return f"{t}:{a['type'][0] if a else '?'}"
    if t != "call":
        return t
    m = op["m"]
    if m in ("update", "transform", "reset"):
        return "top:" + m
    verb, rest = m.split("_", 1)
    if rest in attrs:
        return f"{verb}_attr:{attrs[rest]['type'][0]}"
    for name, a in attrs.items():
        if grammar.SINGULAR.get(name) == rest:
            mode = "idx" if ("_index" in op["k"] or op["k"].get("_by_index") is True) else ("val" if op["k"].get("_by_index") is False else "auto")
            et = grammar.elem_type(a["type"])[0]
            return f"{verb}_elem:{a['type'][0]}[{et}]:{mode}"
    return m


def _nested_class(world, op, cname):
    step = op["path"][0]
    if step[1] not in world.attrs(cname):
        return cname  # an unmanaged attribute holding another instance of the same class (e.g. a copy of itself)
    T = world.attrs(cname)[step[1]]["type"]
    return T[1] if T[0] == "spec" else grammar.elem_type(T)[1]
