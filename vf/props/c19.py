"""
C19 - lazy bootstrapping equals eager bootstrapping under every thread interleaving.

Oracle: a canonical description of the class world - metadata (key, frozen, overflow, per-attribute name / type /
default / default_factory presence / init / repr / compare / do_not_copy / owner / invalidated_by / preparers),
the set of helper names, str(signature) of each, class-level defaults, and the state of every instance the
threads constructed - must equal that of the same descriptor bootstrapped eagerly in one thread; no thread may
see an exception; no deadlock.
"""
import copy
import dataclasses
import inspect
import itertools

from hypothesis import strategies as st

from vf import grammar, model
from vf.runner import HarnessError, run_given
from vf.sched import HarnessStall, LockPatch, Scheduler

ID = "C19"
LEVEL = "exploration"
RULE = (
    "sequential part: Hypothesis-generated class worlds (Attr(...)/dataclasses.field declarations, lazy parent + lazy child, plain and spec subclasses, __new__ "
    "defined or inherited) bootstrapped lazily through every first trigger (instantiate, __spec_class__, dataclasses.fields, instantiate / look up through a "
    "subclass) and compared with the eager build. Concurrent part: 2 and 3 threads each performing a first use under a deterministic scheduler with yield points "
    "at every line of spec_class.py, methods/base.py and types/attr.py: every single-preemption schedule on fixed shapes (thorough: every two-preemption schedule "
    "over spec_class.py for 2 threads), plus Hypothesis-drawn (world, triggers, schedule) cases. Non-trivial = a preemption taken while another thread is inside "
    "bootstrap, on a class with >= 1 Attr/field declaration."
)
ASSUMPTIONS = [
    "the presence of a generated __new__ in vars(cls) is an implementation detail and excluded from the description",
    "granularity is the source line; the schedule space beyond two preemptions is only sampled; free-threaded builds are not modelled",
]
FILES = ("spec_class.py", "methods/base.py", "types/attr.py")
NARROW = ("spec_class.py",)
CRITICAL = {"bootstrap", "build_attr_spec", "bootstrap_once", "__get__", "__new__", "for_class"}
PATCH = LockPatch()
TRIGGERS = ["inst", "meta", "fields", "sub_inst", "sub_meta", "parent_inst"]
PROFILE = dict(grammar.PROFILES["data_plain"], flags=True, max_attrs=5)


def describe(world):
    out = {}
    for cname, cls in world.classes.items():
        if cname in ("U", "N", "V"):
            continue
        md = cls.__spec_class__
        attrs = {}
        for name, a in md.attrs.items():
            attrs[name] = dict(
                type=repr(a.type), default=repr(a.default), factory=bool(a.default_factory), init=a.init, repr=a.repr, compare=a.compare,
                do_not_copy=a.do_not_copy, owner=getattr(a.owner, "__name__", None), invalidated_by=list(a.invalidated_by or ()),
                prepare=a.prepare is not None, prepare_item=a.prepare_item is not None, item_name=a.item_name if a.is_collection else None,
            )
        helpers = sorted(n for n in dir(cls) if n.split("_")[0] in ("with", "update", "transform", "reset", "without") and not n.startswith("_"))
        sigs = {}
        for n in helpers + ["__init__"]:
            try:
                sigs[n] = str(inspect.signature(getattr(cls, n)))
            except (TypeError, ValueError) as e:
                sigs[n] = f"<{type(e).__name__}>"
        defaults = {n: repr(vars(cls)[n]) for n in md.attrs if n in vars(cls)}
        out[cname] = dict(key=md.key, frozen=md.frozen, overflow=md.init_overflow_attr, do_not_copy=md.do_not_copy, owner=md.owner.__name__,
                          attrs=attrs, helpers=helpers, signatures=sigs, defaults=defaults, order=list(md.attrs))
    return out


def trigger_fn(world, trig):
    inst_name = world.desc["instance_class"]
    cls = world.classes[inst_name]
    main = world.classes["M"]
    parent = world.classes.get("P", main)

    def fn():
        if trig == "inst":
            return ("inst", inst_name, model.abstract(cls()))
        # whoever is handed the metadata must find the finished class behind it: the generated methods are observed at that moment
        def ready(c):
            return [n for n in ("__spec_class_init__", "__spec_class_repr__", "__spec_class_eq__", "update", "transform", "reset") if n not in vars(c)]

        if trig == "meta":
            names = sorted(main.__spec_class__.attrs)
            return ("meta", main.__name__, names, ready(main))
        if trig == "fields":
            names = sorted(f.name for f in dataclasses.fields(main))
            return ("fields", main.__name__, names, ready(main))
        if trig == "sub_inst":
            return ("inst", inst_name, model.abstract(cls()))
        if trig == "sub_meta":
            names = sorted(cls.__spec_class__.attrs)
            return ("meta", inst_name, names, ready(main))
        if trig == "parent_inst":
            return ("inst", parent.__name__, model.abstract(parent()))
        raise AssertionError(trig)

    return fn


def build_world(wd, eager):
    wd = copy.deepcopy(wd)
    wd["eager"] = eager
    return grammar.build_world(wd)


def reference(wd, triggers):
    world = build_world(wd, True)
    results = []
    for t in triggers:
        try:
            results.append(trigger_fn(world, t)())
        except (TypeError, ValueError, AttributeError) as e:
            results.append(("raise", type(e).__name__))
    return describe(world), results


def first_diff(a, b, path=""):
    if type(a) is not type(b):
        return f"{path}: {a!r} != {b!r}"
    if isinstance(a, dict):
        for k in sorted(set(a) | set(b), key=str):
            if k not in a or k not in b:
                return f"{path}/{k}: {'missing' if k not in a else a[k]!r} vs {'missing' if k not in b else b[k]!r}"
            d = first_diff(a[k], b[k], f"{path}/{k}")
            if d:
                return d
        return None
    if isinstance(a, (list, tuple)):
        if len(a) != len(b):
            return f"{path}: {a!r} != {b!r}"
        for i, (x, y) in enumerate(zip(a, b)):
            d = first_diff(x, y, f"{path}[{i}]")
            if d:
                return d
        return None
    return None if a == b else f"{path}: {a!r} != {b!r}"


def has_declarations(wd):
    return any(a["default"][0] in ("attr_default", "attr_factory", "attr_none", "field_default", "field_factory") for c in wd["classes"] if c["name"] not in ("U", "N", "V") for a in c["attrs"])


def run_seq(ctx, case):
    wd = case["world"]
    ref_desc, ref_res = reference(wd, [case["trigger"]])
    world = build_world(wd, False)
    try:
        res = trigger_fn(world, case["trigger"])()
    except (TypeError, ValueError, AttributeError, RuntimeError) as e:
        res = ("raise", type(e).__name__)
    if res != ref_res[0]:
        ctx.fail(f"seq|{case['trigger']}|result", case, f"first use {case['trigger']} on the lazy class gave {res!r}; eager gives {ref_res[0]!r}")
        return
    d = first_diff(describe(world), ref_desc)
    if d:
        ctx.fail(f"seq|{case['trigger']}|description:{d.split('/')[2] if d.count('/') > 2 else 'top'}", case, f"lazy (first use: {case['trigger']}) differs from eager: {d}")
        return
    ctx.count(f"seq:{case['trigger']}")
    ctx.case(case, has_declarations(wd))


def run_conc(ctx, case, want_sched=False):
    wd = case["world"]
    triggers = case["triggers"]
    ref_desc, ref_res = reference(wd, triggers)
    if not PATCH.patched:
        PATCH.install()
    sched = Scheduler(case["schedule"], files=NARROW if case.get("narrow") else FILES, timeout=30.0)
    sched.critical_functions = CRITICAL
    sched.record = bool(case.get("record"))
    PATCH.current = sched
    restore = PATCH.swap_live_locks(sched)  # locks the library keeps at module / class level, wherever they are
    try:
        world = build_world(wd, False)  # decoration happens here: the per-class locks are scheduler-aware
        fns = [trigger_fn(world, t) for t in triggers]
        try:
            threads = sched.run(fns)
        except HarnessStall as e:
            raise HarnessError(f"C19 scheduler: {e}")
    finally:
        PATCH.current = None
        restore()
    for t, want in zip(threads, ref_res):
        if t.error is not None:
            if want[0] == "raise" and type(t.error).__name__ == want[1]:
                continue
            kind = "deadlock" if type(t.error).__name__ == "Deadlock" else type(t.error).__name__
            ctx.fail(f"conc|thread_error:{kind}", case, f"thread {t.idx} ({triggers[t.idx]}) raised {t.error!r}; schedule {case['schedule']}; switches {sched.switches}")
            return None
        if t.result != want:
            what = "instance" if want[0] == "inst" else want[0]
            ctx.fail(f"conc|{what}_differs", case, f"thread {t.idx} ({triggers[t.idx]}) observed {t.result!r}; sequential eager gives {want!r}; schedule {case['schedule']}; switches {sched.switches}")
            return None
    d = first_diff(describe(world), ref_desc)
    if d:
        ctx.fail(f"conc|description:{d.split('/')[2] if d.count('/') > 2 else 'top'}", case, f"after concurrent first use {triggers} the class differs from the eager one: {d}; schedule {case['schedule']}; switches {sched.switches}")
        return None
    ctx.count("conc_runs")
    ctx.case({k: v for k, v in case.items() if k != "record"}, bool(sched.switches) and sched.preempted_inside_critical and has_declarations(wd))
    return sched


# fixed shapes for the exhaustive schedules
def _w(classes, inst="M"):
    U = {"name": "U", "kind": "spec", "bases": [], "opts": {}, "attrs": [{"name": "a", "type": ["int"], "default": ["lit", 1]}, {"name": "b", "type": ["str"], "default": ["lit", "b"]}]}
    N = {"name": "N", "kind": "spec", "bases": [], "opts": {"key": "k"}, "attrs": [{"name": "k", "type": ["str"], "default": ["none"]}, {"name": "v", "type": ["int"], "default": ["lit", 0]},
                                                                                  {"name": "notes", "type": ["list", ["str"]], "default": ["attr_factory", ["list", []]]}]}
    return {"eager": False, "classes": [U, N] + classes, "instance_class": inst}


SHAPES = [
    (_w([{"name": "M", "kind": "spec", "bases": [], "opts": {}, "attrs": [
        {"name": "nums", "type": ["list", ["int"]], "default": ["attr_factory", ["list", [1]]]},
        {"name": "count", "type": ["int"], "default": ["attr_default", 3], "compare": False},
        {"name": "label", "type": ["str"], "default": ["field_default", "x"]}]}]), ["inst", "inst"]),
    (_w([{"name": "P", "kind": "spec", "bases": [], "opts": {}, "attrs": [{"name": "nums", "type": ["list", ["int"]], "default": ["attr_factory", ["list", [1]]]}]},
         {"name": "M", "kind": "spec", "bases": ["P"], "opts": {}, "attrs": [{"name": "unit", "type": ["spec", "U"], "default": ["field_factory", ["spec", "U", {}]]}], "user_new": True},
         {"name": "Q", "kind": "plain", "bases": ["M"], "opts": {}, "attrs": [], "redefaults": {}}], "Q"), ["sub_inst", "meta"]),
    (_w([{"name": "M", "kind": "spec", "bases": [], "opts": {}, "attrs": [
        {"name": "items", "type": ["keyedlist", "N"], "default": ["attr_factory", ["kl", "N", []]]},
        {"name": "count", "type": ["int"], "default": ["attr_default", 1], "init": False}], "prepare": {"count": "abs"}}]), ["fields", "inst", "meta"]),
    # two DIFFERENT classes of one hierarchy are first used at the same time: the child (which has to bootstrap its parent on
    # the way) and the parent itself - whatever locks the library takes, it takes them in one order
    (_w([{"name": "P", "kind": "spec", "bases": [], "opts": {}, "attrs": [{"name": "count", "type": ["int"], "default": ["attr_default", 3]}]},
         {"name": "M", "kind": "spec", "bases": ["P"], "opts": {}, "attrs": [{"name": "label", "type": ["str"], "default": ["lit", "x"]}]}]), ["inst", "parent_inst"]),
]
NO_DOUBLE = {3}  # (shapes left out of the exhaustive two-preemption enumeration of the thorough tier)


def _gen_new(src, wd):
    """__new__ defined or inherited: on the spec classes / the plain subclass, calling object.__new__ directly or deferring
    along the MRO, and through an unrelated plain base class placed before or after the spec parent."""
    for c in wd["classes"]:
        if c["name"] in ("P", "M", "Q", "R") and src.chance(1, 4):
            c["user_new"] = src.pick([True, "super", "super"]) if c["name"] in ("P", "M") else "super"
        if c["name"] in ("M", "R", "Q") and src.chance(1, 6):
            c["new_mixin"] = src.pick(["first", "last", "last", "after_plain"])


@st.composite
def conc_case(draw):
    src = grammar.HypSource(draw)
    wd = grammar.gen_world(src, PROFILE)
    wd["eager"] = False
    _gen_new(src, wd)
    n = 2 + src.choice(2)
    triggers = [src.pick(TRIGGERS) for _ in range(n)]
    k = 1 + src.choice(3)
    schedule = sorted([[1 + src.choice(900), src.choice(n)] for _ in range(k)])
    return {"kind": "conc", "world": wd, "triggers": triggers, "schedule": schedule}


@st.composite
def seq_case(draw):
    src = grammar.HypSource(draw)
    wd = grammar.gen_world(src, PROFILE)
    _gen_new(src, wd)
    return {"kind": "seq", "world": wd, "trigger": src.pick(TRIGGERS)}


# ---------------------------------------------------------------------------
# first use through a subclass of TWO lazily bootstrapped spec classes (plain or decorated subclass), every order of uses

MB_USES = ["P()", "P(a=5,b=6)", "A()", "A(a=7)", "B()", "B(b=3)", "meta:A", "meta:B", "meta:P", "fields:B"]


def mb_configs():
    for bstyle in ("lit", "attr", "field"):
        for sub in ("plain", "spec"):
            for new_on in (None, "A", "B"):
                yield {"bstyle": bstyle, "sub": sub, "new_on": new_on}
    # a common (lazily bootstrapped) spec-class root under both bases: the plain diamond
    for bstyle in ("lit", "attr"):
        for sub in ("plain", "spec"):
            for new_on in (None, "A", "B", "Root"):
                yield {"bstyle": bstyle, "sub": sub, "new_on": new_on, "root": True}
    # a decorated class C below the undecorated P(A, B), re-annotating b without a default of its own
    for bstyle in ("lit", "attr", "field", "attr_factory_norepr"):
        for root in (False, True):
            yield {"bstyle": bstyle, "sub": "plain", "new_on": None, "root": root, "below": True}


def mb_uses(cfg):
    return MB_USES + (["C()", "meta:C"] if cfg.get("below") else [])


def mb_run(cfg, uses, eager):
    from spec_classes import Attr, spec_class

    def mk_new(label):
        def __new__(cls, *args, **kwargs):
            inst = object.__new__(cls)
            inst.__dict__[f"made_by_{label}"] = True
            return inst
        return __new__

    a_ns = {"__annotations__": {"a": int}, "a": 1, "__module__": "vf.generated"}
    b_default = {"lit": 2, "attr": Attr(default=2), "field": dataclasses.field(default=2),
                 "attr_factory_norepr": Attr(default_factory=lambda: 2, repr=False)}[cfg["bstyle"]]
    b_ns = {"__annotations__": {"b": int}, "b": b_default, "__module__": "vf.generated"}
    if cfg["new_on"] == "A":
        a_ns["__new__"] = mk_new("A")
    if cfg["new_on"] == "B":
        b_ns["__new__"] = mk_new("B")
    bases = ()
    if cfg.get("root"):
        r_ns = {"__annotations__": {"r": int}, "r": 0, "__module__": "vf.generated"}
        if cfg["new_on"] == "Root":
            r_ns["__new__"] = mk_new("Root")
        bases = (spec_class(bootstrap=eager)(type("Root", (), r_ns)),)
    A = spec_class(bootstrap=eager)(type("A", bases, a_ns))
    B = spec_class(bootstrap=eager)(type("B", bases, b_ns))
    P = type("P", (A, B), {"__module__": "vf.generated"})
    if cfg["sub"] == "spec":
        P = spec_class(bootstrap=eager)(P)
    env_ = {"A": A, "B": B, "P": P}
    if cfg.get("below"):
        env_["C"] = spec_class(bootstrap=eager)(type("C", (P,), {"__annotations__": {"b": int, "c": int}, "c": 3, "__module__": "vf.generated"}))
    out = []
    for u in uses:
        try:
            if u.startswith("meta:"):
                out.append(sorted(env_[u[5:]].__spec_class__.attrs))
            elif u.startswith("fields:"):
                out.append(sorted(f.name for f in dataclasses.fields(env_[u[7:]])))
            else:
                inst = eval(u, dict(env_))  # noqa: S307 - one of the fixed strings above
                out.append((type(inst).__name__, sorted(inst.__dict__.items()), repr(inst)))
        except (TypeError, ValueError, AttributeError, RuntimeError) as e:
            out.append(("raise", type(e).__name__))
    desc = {}
    for n, c in env_.items():
        md = c.__spec_class__
        desc[n] = (sorted(md.attrs), md.owner.__name__, sorted(k for k in vars(c) if k.startswith(("with_", "update", "transform", "reset", "__spec_class_"))),
                   sorted((k, a.has_default, a.repr, a.init) for k, a in md.attrs.items()))
    return out, desc


def run_multibase(ctx, case):
    cfg, uses = case["config"], case["uses"]
    want = mb_run(cfg, uses, True)
    got = mb_run(cfg, uses, False)
    if got[0] != want[0]:
        i = next(j for j, (x, y) in enumerate(zip(got[0], want[0])) if x != y)
        ctx.fail(f"multibase|use_differs:{uses[i].split('(')[0].split(':')[0]}", case, f"uses {uses} on lazily bootstrapped classes: use #{i} {uses[i]} gave {got[0][i]!r}; eager gives {want[0][i]!r}")
        return
    if got[1] != want[1]:
        ctx.fail("multibase|description", case, f"after {uses}: lazy classes {got[1]!r} differ from eager {want[1]!r}")
        return
    ctx.case(case, len(uses) >= 2 and uses[0].startswith("P"))


# ---------------------------------------------------------------------------
# first use of TWO DIFFERENT lazily bootstrapped classes by two threads: whatever the library shares between classes
# (process-wide caches, module-level state) must not let one bootstrap see the other's half-done work

TWO_FILES = ("utils/naming.py", "types/attr.py")
_TWO_COUNTER = [0]


def _two_classes(eager, attr, mutual=False):
    from typing import Dict, List, Optional

    from spec_classes import spec_class

    holder = {}

    def mk(name, extra, peer):
        ns = {"__annotations__": {attr: List[int], extra: Dict[str, int], "n": int}, attr: [], extra: {}, "n": 0, "__module__": "vf.generated"}
        if mutual:
            # the two classes refer to each other in their annotations (resolved through the documented ANNOTATION_TYPES hook)
            ns["__annotations__"]["peer"] = f"Optional[{peer}]"
            ns["__annotations__"]["peers"] = f"List[{peer}]"
            ns["peer"] = None
            ns["peers"] = []
            ns["ANNOTATION_TYPES"] = staticmethod(lambda: dict(holder, Optional=Optional, List=List))
        cls = spec_class(bootstrap=eager and not mutual)(type(name, (), ns))
        holder[name] = cls
        return cls

    A, B = mk("A", attr + "_of_a", "B"), mk("B", attr + "_of_b", "A")
    if mutual and eager:
        A(), B()  # (forward references cannot be bootstrapped at decoration time: the sequential first uses are the reference)
    return A, B


def _two_describe(classes, attr):
    out = []
    for c in classes:
        md = c.__spec_class__
        out.append((c.__name__, sorted(n.replace(attr, "<attr>") for n in vars(c) if n.split("_")[0] in ("with", "update", "transform", "reset", "without")),
                    sorted((k.replace(attr, "<attr>"), str(a.item_name).replace(attr, "<attr>")) for k, a in md.attrs.items())))
    return out


def run_twoclass(ctx, case, record=False):
    # attribute names that have no singular form and that nobody has asked about before (a fresh pair per run: the eager
    # reference must not warm anything up for the lazy classes)
    _TWO_COUNTER[0] += 1
    ref_attr, attr = f"payload_{_TWO_COUNTER[0]}_e", f"payload_{_TWO_COUNTER[0]}_x"
    mutual = bool(case.get("mutual"))
    want = _two_describe(_two_classes(True, ref_attr, mutual), ref_attr)
    if not PATCH.patched:
        PATCH.install()
    sched = Scheduler(case["schedule"], files=TWO_FILES, timeout=30.0)
    sched.record = record
    PATCH.current = sched
    restore = PATCH.swap_live_locks(sched)
    try:
        A, B = _two_classes(False, attr, mutual)
        try:
            threads = sched.run([lambda: A().n, lambda: B().n])
        except HarnessStall as e:
            raise HarnessError(f"C19 scheduler: {e}")
    finally:
        PATCH.current = None
        restore()
    for t in threads:
        if t.error is not None:
            ctx.fail(f"twoclass|thread_error:{type(t.error).__name__}", case, f"thread {t.idx} raised {t.error!r}; schedule {case['schedule']}; switches {sched.switches}")
            return None
    got = _two_describe((A, B), attr)
    if got != want:
        ctx.fail("twoclass|description", case, f"two classes first used by two threads differ from their eager twins: {got!r} vs {want!r}; schedule {case['schedule']}; switches {sched.switches}")
        return None
    ctx.count("twoclass_runs")
    ctx.case(case, bool(sched.switches))
    return sched


def run_case(ctx, case):
    if case["kind"] == "multibase":
        return run_multibase(ctx, case)
    if case["kind"] == "twoclass":
        return run_twoclass(ctx, case)
    if case["kind"] == "seq":
        run_seq(ctx, case)
    else:
        run_conc(ctx, case)


BOUNDS = {"quick": dict(seq=120, conc=50, double=False), "thorough": dict(seq=1500, conc=700, double=True)}


def units(tier, seed):
    out = [["seq", i] for i in range(4)] + [["conc_hyp", i] for i in range(6)] + [["multibase", i, 4] for i in range(4)] + [["twoclass", i, 2] for i in range(2)]
    for si in range(len(SHAPES)):
        for shard in range(4):
            out.append(["single", si, shard, 4])
        if BOUNDS[tier]["double"] and len(SHAPES[si][1]) == 2 and si not in NO_DOUBLE:
            for shard in range(16):
                out.append(["double", si, shard, 16])
    return out


def _count(wd, triggers, narrow):
    from vf.runner import Ctx

    sched = run_conc(Ctx("C19", "count", 0), {"kind": "conc", "world": wd, "triggers": triggers, "schedule": [], "narrow": narrow, "record": True})
    return sched.step if sched else 0


def run_unit(ctx, unit):
    b = BOUNDS[ctx.tier]
    kind = unit[0]
    if kind == "seq":
        run_given(ctx, lambda case: run_case(ctx, case), {"case": seq_case()}, b["seq"], ctx.seed * 1000 + unit[1])
    elif kind == "conc_hyp":
        run_given(ctx, lambda case: run_case(ctx, case), {"case": conc_case()}, b["conc"], ctx.seed * 1000 + 300 + unit[1])
    elif kind == "multibase":
        j = 0
        maxlen = 3 if ctx.tier == "thorough" else 2
        for cfg in mb_configs():
            for n in range(1, maxlen + 1):
                for uses in itertools.permutations(mb_uses(cfg), n):
                    j += 1
                    if j % unit[2] != unit[1]:
                        continue
                    run_multibase(ctx, {"kind": "multibase", "config": cfg, "uses": list(uses)})
        ctx.count("multibase_shards_completed")
    elif kind == "twoclass":
        from vf.runner import Ctx

        for mutual in (False, True):
            probe = run_twoclass(Ctx("C19", "count", 0), {"kind": "twoclass", "schedule": [], "mutual": mutual}, record=True)
            total = probe.step if probe else 0
            for s in range(1, total + 1):
                if s % unit[2] != unit[1]:
                    continue
                run_twoclass(ctx, {"kind": "twoclass", "schedule": [[s, 1]], "mutual": mutual})
                if ctx.failures:
                    return
        ctx.count("twoclass_shards_completed")
    elif kind == "single":
        wd, triggers = SHAPES[unit[1]]
        total = _count(wd, triggers, False)
        j = 0
        for s in range(1, total + 1):
            for target in range(1, len(triggers)):
                j += 1
                if j % unit[3] != unit[2]:
                    continue
                run_conc(ctx, {"kind": "conc", "world": wd, "triggers": triggers, "schedule": [[s, target]]})
                if ctx.failures:
                    return
        ctx.count("single_preemption_shards_completed")
    elif kind == "double":
        wd, triggers = SHAPES[unit[1]]
        total = _count(wd, triggers, True)
        j = 0
        for s1 in range(1, total + 1):
            for s2 in range(s1 + 1, total + 1):
                j += 1
                if j % unit[3] != unit[2]:
                    continue
                run_conc(ctx, {"kind": "conc", "world": wd, "triggers": triggers, "schedule": [[s1, 1], [s2, 0]], "narrow": True})
                if ctx.failures:
                    return
        ctx.count("double_preemption_shards_completed")
    else:
        raise AssertionError(unit)


def coverage_extra(tier, counters):
    return {"exhaustive": True, "exhaustive_scope": "every single-preemption schedule (line granularity over spec_class.py, methods/base.py, types/attr.py) on 4 fixed class shapes with 2-3 threads"
            + ("; every two-preemption schedule over spec_class.py for the 2-thread shapes" if tier == "thorough" else "")}


def replay(ctx, case):
    run_case(ctx, case)
