"""
State + probe + fault enumeration core shared by C01 (copy-on-write helpers never
change the receiver) and C04 (an operation that raises leaves everything unchanged).
"""

from __future__ import annotations

from vf import grammar, ops
from vf.faults import LineTracer, callback_points
from vf.props.common import op_route
from vf.runner import chash
from vf.snapshot import Snapshot, mutable_ids, same_state


def class_defaults(world):
    """The objects sitting in class namespaces under managed attribute names."""
    out = []
    for cname, cls in world.classes.items():
        for name in world.all_attrs.get(cname, {}):
            if name in vars(cls):
                out.append(vars(cls)[name])
    return out


def reach(world, hist):
    """Replay the history through the public API. Returns (cur, live) or (None, [])."""
    world.calls = {}
    world.faults = {}
    try:
        cur = ops.construct(world, hist[0])
    except ops.CLEAN:
        return None, []
    live = [cur]
    for op in hist[1:]:
        outcome, value = ops.execute(world, cur, op)
        if outcome == "ok" and hasattr(value, "__spec_class__") and not any(x is value for x in live):
            live.append(value)
        cur = ops.adopt(world, cur, op, outcome, value)
    return cur, live


PARTS = ("receiver", "arguments", "other instances", "class-level defaults")


def attempt(world, hist, probe, fault=None):
    """Replays history, runs probe (optionally under a fault). Returns dict or None (not applicable)."""
    cur, live = reach(world, hist)
    if cur is None:
        return None
    rec = []
    try:
        thunk = ops.bind(world, cur, probe, rec)
    except ops.CLEAN:
        return None
    if thunk is None:
        return None
    target = cur
    if probe["t"] == "nested":
        target = ops.locate(cur, probe["path"])
    others = [x for x in live if x is not cur]
    parts = (cur, rec, others, class_defaults(world))
    before = [Snapshot(p) for p in parts]
    world.calls = {}
    world.faults = {}
    lines = None
    where = None
    if fault is None:
        with LineTracer(None) as tr:
            outcome, value = ops.call(thunk)
        lines = tr.count
    elif fault[0] == "callback":
        world.faults = {tuple(fault[1]): {fault[2]}}
        outcome, value = ops.call(thunk)
    else:
        with LineTracer(fault[1]) as tr:
            outcome, value = ops.call(thunk)
        where = tr.where
    calls = dict(world.calls)
    world.faults = {}
    changed = []
    detail = ""
    for name, b, p in zip(PARTS, before, parts):
        after = Snapshot(p)
        if b.identity_form() != after.identity_form():
            changed.append(name)
            if not detail:
                from vf.snapshot import diff

                detail = diff(b, p)
    return dict(outcome=outcome, value=value, changed=changed, detail=detail, lines=lines, calls=calls, cur=cur, target=target, where=where,
                injected=isinstance(value, grammar.Injected) if outcome == "raise" else False)


def run_probe_case(ctx, case, mode):
    """mode: "c01" (copy-on-write probe: nothing may change, whether it returns or raises; callback + line faults)
             "c04" (any probe: if it raises nothing may change; natural failures + callback faults)"""
    world = grammar.build_world(case["world"])
    hist, probe = case["ops"], case["probe"]
    route = op_route(world, probe) if probe["t"] != "new" else "new"
    if mode == "c04" and probe.get("k", {}).get("_inplace") is True:
        route += "!inplace"  # (buckets keep the in-place and the copy-on-write form of a helper apart)

    def verdict(res, fault_label, fault):
        if mode == "c04" and res["outcome"] != "raise":
            return True
        if res["changed"]:
            exc = type(res["value"]).__name__ if res["outcome"] == "raise" else "-"
            what = res["changed"][0]
            ctx.fail(f"{route}|{res['outcome']}|{fault_label}|{what}", dict(case, fault=fault),
                     f"probe {probe} ({'raised ' + exc if res['outcome'] == 'raise' else 'returned'}; fault={fault}) changed the {what}: {res['detail']}")
            return False
        return True

    def cb_label(key):
        """callback:<kind>[@dependant]: a preparer that belongs to an attribute the probe does not address runs only because
        that attribute is being restored as an invalidated dependant."""
        kind, name = key[0], key[1] if len(key) > 1 else None
        if kind in ("prepare", "prepare_item") and name is not None and name not in _probe_attrs(world, probe):
            return f"callback:{kind}@dependant"
        return f"callback:{kind}"

    nat = attempt(world, hist, probe)
    if nat is None:
        ctx.count("not_applicable")
        ctx.case(case, False)
        return
    ctx.count(f"natural:{nat['outcome']}")
    ctx.count(f"route:{route.split(':')[0]}")
    if not verdict(nat, "natural", None):
        return
    nontrivial_state = len(mutable_ids(nat["cur"])) > 1
    if mode == "c01":
        differs = nat["outcome"] == "raise" or not (hasattr(nat["value"], "__spec_class__") and same_state(nat["value"], nat["target"]))
        nontrivial = nontrivial_state and differs
    else:
        nontrivial = nat["outcome"] == "raise" and (nat["lines"] or 0) > 3
    n_faults = 0
    # --- callback faults: every invocation of every callback the probe made
    points = callback_points({}, nat["calls"])
    for key, n in points:
        fault = ["callback", list(key), n]
        res = attempt(world, hist, probe, fault)
        if res is None:
            continue
        n_faults += 1
        ctx.count(f"callback_fault:{key[0]}:{res['outcome']}")
        if res["outcome"] == "raise" and res["injected"]:
            nontrivial = nontrivial or mode == "c04"
        if not verdict(res, cb_label(key), fault):
            return
    # --- line faults (C01 only): abort the helper at executed library lines
    if mode == "c01" and nat["lines"]:
        plan = case.get("line_plan")
        if plan is None:
            plan = line_plan(ctx.tier, case, nat["lines"])
        for n in plan:
            fault = ["line", n]
            res = attempt(world, hist, probe, fault)
            if res is None:
                continue
            n_faults += 1
            ctx.count(f"line_fault:{res['outcome']}")
            label = "line@" + (res["where"].split(":")[-1] if res["where"] else "?")
            if not verdict(res, label, fault):
                return
    if case.get("fault"):  # replay of a stored failing fault
        res = attempt(world, hist, probe, case["fault"])
        if res is not None:
            f = case["fault"]
            label = cb_label(f[1]) if f[0] == "callback" else "line@" + (res["where"].split(":")[-1] if res["where"] else "?")
            if not verdict(res, label, f):
                return
    ctx.count("fault_runs", n_faults)
    ctx.case({k: v for k, v in case.items() if k != "fault"}, nontrivial)


def _probe_attrs(world, probe):
    """Names of the attributes a probe addresses directly (through its method name, its keywords or the assignment target)."""
    out = set()
    if probe["t"] in ("set", "del"):
        return {probe["attr"]}
    if probe["t"] != "call":
        return out
    out.update(k for k in probe["k"] if not k.startswith("_"))
    m = probe["m"]
    if "_" in m:
        rest = m.split("_", 1)[1]
        for name in world.all_attrs.get(world.desc["instance_class"], {}):
            if rest == name or grammar.SINGULAR.get(name) == rest:
                out.add(name)
    else:
        out.update(world.all_attrs.get(world.desc["instance_class"], {}))  # update / transform / reset: any attribute
    return out


def line_plan(tier, case, total):
    """Which line numbers to abort at. quick: <= 24 evenly spread points on ~1/6 of the cases;
    thorough: every point (<= 500) on 1/3 of the cases, 24 points on the rest."""
    h = chash(case)
    every = list(range(1, min(total, 500) + 1))
    spread = sorted({1 + (i * (total - 1)) // 23 for i in range(24)}) if total > 24 else every
    if tier == "thorough":
        return every if h % 3 == 0 else spread
    if tier == "replay":
        return []
    return spread if h % 6 == 0 else []
