"""Book-keeping for a repaired defect: run the owning check against the revert-mutant in a scratch copy, keep the first
replay of the wanted bucket as regression replay, and append the `fixed` entry to known_findings.json.
usage: python vf/record_fix.py <ID> <commit> <mutant-patch> <bucket-glob> <replay-name> <what...>"""
import fnmatch
import glob
import json
import os
import shutil
import subprocess
import sys
import tempfile

HERE = os.path.dirname(os.path.dirname(os.path.abspath(__file__)))


def main():
    prop, commit, patch, bucket, name = sys.argv[1:6]
    what = " ".join(sys.argv[6:])
    scratch = tempfile.mkdtemp(prefix="vffix_")
    try:
        repo, out = os.path.join(scratch, "repo"), os.path.join(scratch, "out")
        shutil.copytree("/repo", repo, ignore=shutil.ignore_patterns(".git", "__pycache__", "docsite", "*.pyc"))
        subprocess.check_call(["patch", "-p1", "-s", "--no-backup-if-mismatch", "-i", os.path.abspath(patch)], cwd=repo)
        env = dict(os.environ, VF_REPO=repo, VF_OUT=out)
        r = subprocess.run([os.path.join(HERE, "check"), prop, "--tier", "quick"], env=env, capture_output=True, text=True)
        if r.returncode != 1:
            print("mutant not killed: exit", r.returncode, r.stderr[-400:])
            return 1
        chosen = None
        for f in sorted(glob.glob(os.path.join(out, "replays", prop, "new-*.json"))):
            d = json.load(open(f))
            if fnmatch.fnmatch(d["bucket"], bucket):
                chosen = (f, d["bucket"])
                break
        if not chosen:
            print("no replay in bucket", bucket, [json.load(open(f))["bucket"] for f in glob.glob(os.path.join(out, "replays", prop, "new-*.json"))])
            return 1
        rel = f"replays/{prop}/{name}.json"
        shutil.copy(chosen[0], os.path.join(HERE, rel))
        p = os.path.join(HERE, "known_findings.json")
        d = json.load(open(p))
        d["findings"].append({"property": prop, "status": "fixed", "bucket": chosen[1], "commit": commit, "replay": rel, "what": what,
                              "line": f"fixed: property={prop} {commit} {what}"})
        json.dump(d, open(p, "w"), indent=1)
        print("recorded", rel, chosen[1])
        return 0
    finally:
        shutil.rmtree(scratch, ignore_errors=True)


if __name__ == "__main__":
    sys.exit(main())
