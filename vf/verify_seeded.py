"""
Confirm every seeded change ourselves, in a scratch copy outside /repo and /verif:
  (a) the repository's own test-suite still passes with the change,
  (b) the demonstration fails with the change, (c) passes without it.
Writes the outcome into seeded/<name>/meta.json under "verified".
  python vf/verify_seeded.py [name ...]
"""
import json
import os
import shutil
import subprocess
import sys
import tempfile

HERE = os.path.dirname(os.path.dirname(os.path.abspath(__file__)))
PY = "/venv/bin/python"


def sh(cmd, cwd, env=None, timeout=1200):
    r = subprocess.run(cmd, cwd=cwd, env=env, capture_output=True, text=True, timeout=timeout)
    return r.returncode, (r.stdout + r.stderr)[-400:]


def verify(name):
    d = os.path.join(HERE, "seeded", name)
    scratch = tempfile.mkdtemp(prefix="vfseed_")
    try:
        repo = os.path.join(scratch, "repo")
        shutil.copytree("/repo", repo, ignore=shutil.ignore_patterns(".git", "__pycache__", "docsite"))
        env = dict(os.environ, PYTHONPATH=repo, PYTHONDONTWRITEBYTECODE="1")
        demo = os.path.join(d, "demo.py")
        rc_clean, out_clean = sh([PY, demo], repo, env)
        rc, out = sh(["patch", "-p1", "-s", "--no-backup-if-mismatch", "-i", os.path.join(d, "patch.diff")], repo)
        if rc != 0:
            return {"patch_applies": False, "detail": out}
        rc_suite, out_suite = sh([PY, "-m", "pytest", "-q", "-p", "no:cacheprovider", "--timeout=900", "-x"], repo, env)
        rc_mut, out_mut = sh([PY, demo], repo, env)
        return {
            "patch_applies": True,
            "suite_passes_with_change": rc_suite == 0,
            "suite_tail": out_suite.strip().splitlines()[-1] if out_suite.strip() else "",
            "demo_passes_without_change": rc_clean == 0,
            "demo_fails_with_change": rc_mut != 0,
            "demo_tail_with_change": out_mut.strip().splitlines()[-1][:200] if out_mut.strip() else "",
            "base_commit": subprocess.check_output(["git", "-C", "/repo", "rev-parse", "--short", "HEAD"], text=True).strip(),
            "ran": "scratch copy of /repo + patch: pytest -q (full suite); demo.py with and without the change",
        }
    finally:
        shutil.rmtree(scratch, ignore_errors=True)


def main():
    names = sys.argv[1:] or sorted(os.listdir(os.path.join(HERE, "seeded")))
    bad = 0
    for name in names:
        mp = os.path.join(HERE, "seeded", name, "meta.json")
        if not os.path.exists(mp):
            continue
        meta = json.load(open(mp))
        v = verify(name)
        meta["verified"] = v
        json.dump(meta, open(mp, "w"), indent=1)
        ok = v.get("patch_applies") and v["suite_passes_with_change"] and v["demo_passes_without_change"] and v["demo_fails_with_change"]
        print(name, "OK" if ok else "NOT-CONFIRMED", json.dumps(v)[:300], flush=True)
        bad += 0 if ok else 1
    return 1 if bad else 0


if __name__ == "__main__":
    sys.exit(main())
