"""
Class-definition grammar: JSON world descriptors -> real (fresh) classes.

A *world* is a list of class descriptors in dependency order:
  U  un-keyed nested spec class          a: int = 1; b: str = "b"
  N  keyed nested spec class (key "k")   k: str; v: int = 0; notes: List[str]
  P  optional spec parent of M           (some attributes live here)
  M  the main spec class
  Q  optional plain (undecorated) subclass of M overriding defaults
  R  optional spec subclass of M adding / re-defaulting attributes
The instance class is M, Q or R. Everything is plain JSON so that a case
shrinks and replays; build_world() turns it into real classes with fresh
callbacks wired to a fault plan.
"""

from __future__ import annotations

import dataclasses
import typing

# ---------------------------------------------------------------------------
# choice sources


class HypSource:
    def __init__(self, draw):
        from hypothesis import strategies as st

        self._draw = draw
        self._st = st

    def choice(self, n):
        return self._draw(self._st.integers(0, n - 1))

    def pick(self, seq):
        return seq[self.choice(len(seq))]

    def chance(self, num, den):
        return self.choice(den) < num


class ListSource:
    """Replays a fixed list of ints (wrapping) - used by enumerations and fuzzers."""

    def __init__(self, data):
        self.data = list(data) or [0]
        self.i = 0

    def choice(self, n):
        v = self.data[self.i % len(self.data)] if self.i < 4096 else 0
        self.i += 1
        return v % n

    def pick(self, seq):
        return seq[self.choice(len(seq))]

    def chance(self, num, den):
        return self.choice(den) < num


# ---------------------------------------------------------------------------
# attribute pool (names with hand-verified singular forms)

ATTR_POOL = [
    ("count", ["int"]),
    ("label", ["str"]),
    ("ratio", ["float"]),
    ("maybe", ["opt", ["int"]]),
    ("mixed", ["union", [["int"], ["str"]]]),
    ("mode", ["literal", ["a", "b", 1]]),
    ("choice", ["opt", ["literal", ["a", "b", 1]]]),
    ("either", ["union", [["int"], ["list", ["int"]]]]),
    ("pair", ["tuple", [["int"], ["str"]]]),
    ("seq", ["vtuple", ["int"]]),
    ("combo", ["tuple", [["int"], ["list", ["int"]]]]),
    ("level", ["bounded", "int", {"ge": 0}]),
    ("title", ["validated", "nonempty_str"]),
    ("nums", ["list", ["int"]]),
    ("names", ["list", ["str"]]),
    ("weights", ["list", ["float"]]),
    ("scores", ["dict", ["str"], ["int"]]),
    ("ids", ["set", ["int"]]),
    ("tags", ["set", ["str"]]),
    ("unit", ["spec", "U"]),
    ("node", ["spec", "N"]),
    ("parts", ["list", ["spec", "U"]]),
    ("children", ["list", ["spec", "N"]]),
    ("boxes", ["dict", ["str"], ["spec", "U"]]),
    ("slots", ["dict", ["str"], ["spec", "N"]]),
    ("items", ["keyedlist", "N"]),
    ("members", ["keyedset", "N"]),
    ("vee", ["spec", "V"]),  # V has an init-overflow attribute; only in profiles with with_v=True
    ("vees", ["list", ["spec", "V"]]),
]
POOL_TYPES = dict(ATTR_POOL)
SINGULAR = {
    "nums": "num", "names": "name", "weights": "weight", "scores": "score", "ids": "id", "tags": "tag", "parts": "part",
    "children": "child", "boxes": "box", "slots": "slot", "items": "item", "members": "member", "notes": "note", "vees": "vee",
}
SCALAR_KINDS = {"int", "str", "float", "opt", "union", "literal", "tuple", "vtuple", "bounded", "validated", "any"}
KEYS = ["", "a", "b", "c"]


def is_collection(T):
    return T[0] in ("list", "dict", "set", "keyedlist", "keyedset")


def elem_type(T):
    if T[0] in ("list", "set"):
        return T[1]
    if T[0] == "dict":
        return T[2]
    if T[0] in ("keyedlist", "keyedset"):
        return ["spec", T[1]]
    return None


def family(T):
    return {"list": "seq", "keyedlist": "seq", "dict": "map", "set": "set", "keyedset": "set"}.get(T[0])


# ---------------------------------------------------------------------------
# value descriptors (JSON) for a type


SCALAR_GOOD = {
    # the first entries are what shrinking (and Hypothesis's bias towards small draws) favours: a value every preparer of the
    # pool changes differently, then the falsy one
    "int": [-1, 0, 5, 1, 2, 7],
    "str": [" a ", "", "a", "b", "zz"],
    "float": [-1.5, 0.0, 0.5, 2],
}
SCALAR_BAD = {
    "int": ["x", 1.5, None, ["list", [1]], 0.0, 1.0, 2.0, 5.0],  # incl. floats that compare equal to conforming ints
    "str": [1, None, ["list", ["a"]]],
    "float": ["x", None],
}


def gen_value(src, T, good=True, depth=0):
    """A JSON value descriptor for type T; conforming if good, else broken at one position (best effort)."""
    k = T[0]
    if k in SCALAR_GOOD:
        return src.pick(SCALAR_GOOD[k] if good else SCALAR_BAD[k])
    if k == "any":
        return src.pick([0, "a", None, ["list", [1]], 1.5])
    if k == "opt":
        if good and src.chance(1, 3):
            return None
        return gen_value(src, T[1], good, depth) if good else src.pick(["x", 1.5, ["list", []]])
    if k == "union":
        if good:
            return gen_value(src, src.pick(T[1]), True, depth)
        return src.pick([None, 1.5, ["list", [1]]])
    if k == "literal":
        # (True is no member of a Literal that offers the int 1: choices are matched by type and value)
        return src.pick(T[1]) if good else src.pick(([True, 1.0] if 1 in T[1] else []) + ["A", 2, None, ""])
    if k == "tuple":
        items = [gen_value(src, t, True, depth) for t in T[1]]
        if not good:
            m = src.choice(3)
            if m == 0:
                items = items[:-1]
            elif m == 1:
                items[src.choice(len(items))] = None
            else:
                return ["list", items]
        return ["tuple", items]
    if k == "vtuple":
        items = [gen_value(src, T[1], True, depth) for _ in range(src.choice(3))]
        if not good:
            items = items + [src.pick(["x", None])]
        return ["tuple", items]
    if k == "bounded":
        if "gt" in T[2]:  # exclusive lower bound: the bound itself is the nearest non-member
            lo = T[2]["gt"]
            return src.pick([lo + 1, lo + 2, lo + 5]) if good else src.pick([lo, lo - 1, lo - 5, "x", None, ["dict", []], ["dict", [["x", 1]]]])
        lo = T[2].get("ge", 0)
        return src.pick([lo, lo + 1, lo + 5]) if good else src.pick([lo - 1, lo - 5, "x", None, ["dict", []], ["dict", [["x", 1]]]])
    if k == "validated":
        return src.pick(["a", "zz", " t "]) if good else src.pick(["", 1, None, ["dict", []], ["dict", [["x", 1]]]])
    if k == "list":
        n = src.choice(4)
        items = [gen_value(src, T[1], True, depth + 1) for _ in range(n)]
        if not good:
            m = src.choice(3)
            if m == 0:
                return src.pick([5, "notalist", None]) if T[1][0] != "str" else src.pick([5, None])
            items.insert(src.choice(len(items) + 1), gen_value(src, T[1], False, depth + 1))
        return ["list", items]
    if k == "set":
        n = src.choice(4)
        items = [gen_value(src, T[1], True, depth + 1) for _ in range(n)]
        if not good:
            if src.chance(1, 3):
                return src.pick([5, None])
            items.append(src.pick(["x", 1.5] if T[1][0] == "int" else [1, 2.5]))
        return ["set", _dedupe(items)]
    if k == "dict":
        n = src.choice(3)
        pairs = [[src.pick(KEYS), gen_value(src, T[2], True, depth + 1)] for _ in range(n)]
        if not good:
            m = src.choice(3)
            if m == 0:
                return src.pick([5, ["list", [1]]])
            if m == 1:
                pairs.append([src.pick([1, 2]), gen_value(src, T[2], True, depth + 1)])  # bad key
            else:
                pairs.append([src.pick(KEYS), gen_value(src, T[2], False, depth + 1)])  # bad value
        seen, out = set(), []
        for a, b in pairs:
            if repr(a) not in seen:
                seen.add(repr(a))
                out.append([a, b])
        return ["dict", out]
    if k == "spec":
        if not good:
            return src.pick([5, "notaspec", None, ["spec", "U" if T[1] == "N" else "N", {"k": "a"} if T[1] != "N" else {}]])
        return gen_spec(src, T[1], depth)
    if k in ("keyedlist", "keyedset"):
        n = src.choice(3)
        keys = []
        for _ in range(n):
            kk = src.pick(KEYS)
            if kk not in keys:
                keys.append(kk)
        items = [gen_spec(src, T[1], depth + 1, key=kk) for kk in keys]
        if not good:
            m = src.choice(4)
            if m == 0:
                return src.pick([5, None])
            if m == 1:
                # a ready-made keyed container whose elements are not spec instances at all
                return ["klraw" if k == "keyedlist" else "ksraw", [src.pick([5, 7]), src.pick([1.5, 9])]]
            if m == 3 and items:
                # a ready-made keyed container of proper items whose KEYS have the wrong type (built with an int-valued key
                # function, while the annotation says KeyedList[N, str])
                return ["klintkey" if k == "keyedlist" else "ksintkey", T[1], items]
            items.append(src.pick([5, "zz"]))
            return ["list", items]
        if src.chance(1, 6):
            # a ready-made keyed container of bare keys: the library promotes them to keyed spec instances
            return ["klraw" if k == "keyedlist" else "ksraw", keys]
        # a plain list / set of spec instances is cast into the keyed container by the library
        return [("kl" if k == "keyedlist" else "ks"), T[1], items] if src.chance(1, 2) else ["list", items]
    raise AssertionError(T)


def gen_spec(src, cname, depth=0, key=None):
    if cname == "V":
        kw = {"w": src.pick([0, 1, 4])} if src.chance(2, 3) else {}
        if src.chance(1, 3):
            kw[src.pick(["zz9", "yy8"])] = src.pick([1, "s"])  # collected by V's overflow attribute
        return ["spec", "V", kw]
    if cname == "U":
        kw = {}
        if src.chance(1, 2):
            kw["a"] = src.pick([0, 1, 2, 5])
        if src.chance(1, 3):
            kw["b"] = src.pick(["", "b", "x"])
        return ["spec", "U", kw]
    kw = {"k": key if key is not None else src.pick(KEYS)}
    if src.chance(1, 2):
        kw["v"] = src.pick([0, 1, 2])
    if src.chance(1, 3):
        kw["notes"] = ["list", [src.pick(["", "n"]) for _ in range(src.choice(3))]]
    return ["spec", "N", kw]


def _dedupe(items):
    seen, out = set(), []
    for x in items:
        if repr(x) not in seen:
            seen.add(repr(x))
            out.append(x)
    return out


# ---------------------------------------------------------------------------
# world generation

PREPARERS = {
    "int": ["abs", "bad_if_5"],
    "str": ["strip", "upper"],
    "list": ["cast_list"],
    "float": ["abs", "floor"],
    # Optional[int]: a preparer that maps None (a legal value) to something else - None is a value like any other for it
    "opt": ["none_to_zero"],
    # a preparer that changes nothing still is a user callback that can fail (fault plans target it)
    "spec": ["noop"], "dict": ["noop"], "set": ["noop"], "keyedlist": ["noop"], "keyedset": ["noop"],
}
ITEM_PREPARERS = {"int": ["abs"], "str": ["strip"], "float": ["abs"]}
ITEM_PREPARER_PAIRS = {"int": ("abs", "neg_abs"), "str": ("strip", "upper"), "float": ("abs", "floor")}  # (a parent's hook, what a child overrides it with)


def conforming_default(v, T):
    """Class-level defaults must themselves conform to the annotation (a default is only normalised
    when it passes through the constructor, which init=False attributes never do): keyed containers
    are written as KeyedList / KeyedSet, not as castable plain lists."""
    if T[0] in ("keyedlist", "keyedset") and isinstance(v, list) and v[0] == "list":
        return ["kl" if T[0] == "keyedlist" else "ks", T[1], v[1]]
    if T[0] in ("keyedlist", "keyedset") and isinstance(v, list) and v[0] in ("klraw", "ksraw"):
        return ["kl" if T[0] == "keyedlist" else "ks", T[1], [["spec", T[1], {"k": k}] for k in v[1]]]
    return v


def gen_default(src, T, allow_mutable_literal=True):
    k = T[0]
    m = src.choice(7)
    if m == 0:
        return ["none"]
    v = gen_value(src, T, True)
    if not (k in ("keyedlist", "keyedset") and src.chance(1, 3)):
        # (1 in 3 keyed-container defaults stay in their castable plain form - a list of items or of bare keys: the constructor
        # casts it, and so does every later restoration of the default)
        v = conforming_default(v, T)
    style = ["lit", "lit", "attr_default", "attr_factory", "field_default", "field_factory"][m - 1]
    mutable = isinstance(v, list) and v[0] in ("list", "dict", "set", "spec", "kl", "ks")
    if k in ("keyedlist", "keyedset") or (mutable and style == "field_default"):
        # dataclasses.field(default=<list>) is rejected by nobody here, but keep to documented shapes
        style = src.pick(["attr_factory", "field_factory", "lit", "attr_default"])
    return [style, v]


def gen_world(src, profile):
    """profile: dict of switches (see PROFILES)."""
    n_attrs = 3 + src.choice(profile.get("max_attrs", 5) - 2)
    pool = [a for a in ATTR_POOL if a[1][0] in profile.get("kinds", SCALAR_KINDS | {"list", "dict", "set", "spec", "keyedlist", "keyedset"})]
    if profile.get("pool_filter"):
        pool = [a for a in pool if profile["pool_filter"](a)]
    if not profile.get("with_v"):
        pool = [a for a in pool if a[0] not in ("vee", "vees")]
    names = []
    # always at least one collection and one nested spec when available (they are what the properties are about)
    must = [a for a in pool if is_collection(a[1])]
    if must and profile.get("force_collection", True):
        names.append(src.pick(must)[0])
    must = [a for a in pool if a[1][0] == "spec" or (is_collection(a[1]) and elem_type(a[1])[0] == "spec")]
    if must and profile.get("force_spec", True):
        n = src.pick(must)[0]
        if n not in names:
            names.append(n)
    while len(names) < n_attrs:
        n = src.pick(pool)[0]
        if n not in names:
            names.append(n)
    if "vee" in names and "vees" in names:
        names.remove("vee")  # singular of `vees` would collide with the attribute `vee` (collisions are C16's subject)
    order = [a[0] for a in ATTR_POOL if a[0] in names]
    if src.chance(1, 2):
        order = order[::-1]

    attrs = []
    for name in order:
        T = POOL_TYPES[name]
        a = {"name": name, "type": T, "default": gen_default(src, T)}
        if profile.get("flags", True):
            if src.chance(1, 8):
                a["init"] = False
            if src.chance(1, 8):
                a["repr"] = False
            if src.chance(1, 8):
                a["compare"] = False
        if profile.get("do_not_copy_attrs") and src.chance(1, 4):
            a["do_not_copy"] = src.pick(["attr", "decorator"])
        attrs.append(a)

    # invalidated_by: only by attributes declared earlier (no cycles: the library recurses on them)
    if profile.get("invalidation", True):
        for i, a in enumerate(attrs):
            if i and src.chance(1, 6):
                a["invalidated_by"] = [attrs[src.choice(i)]["name"]]
                if profile.get("invalidation_cycles") and src.chance(1, 3):
                    # mutual invalidation (window start / stop): writing one resets the other - and not itself in turn
                    other = next(x for x in attrs if x["name"] == a["invalidated_by"][0])
                    if not other.get("invalidated_by"):
                        other["invalidated_by"] = [a["name"]]

    # explicit Attr flags need an Attr-style default
    for a in attrs:
        if any(k in a for k in ("init", "repr", "compare", "invalidated_by")) or a.get("do_not_copy") == "attr":
            if a["default"][0] in ("none", "lit", "field_default", "field_factory"):
                a["default"] = ["attr_default" if a["default"][0] != "none" else "attr_none"] + a["default"][1:]
        if a.get("init") is False and a["default"][0] in ("none", "attr_none"):
            pass  # attribute stays missing until assigned

    world = {"eager": src.chance(1, 2), "classes": []}
    nested_frozen = profile.get("frozen_nested") and src.chance(1, 3)
    world["classes"].append({"name": "U", "kind": "spec", "bases": [], "opts": {"frozen": bool(nested_frozen)},
                             "attrs": [{"name": "a", "type": ["int"], "default": ["lit", 1]}, {"name": "b", "type": ["str"], "default": ["lit", "b"]}]})
    nkey_default = src.chance(1, 4)
    world["classes"].append({"name": "N", "kind": "spec", "bases": [], "opts": {"key": "k"},
                             "attrs": [{"name": "k", "type": ["str"], "default": ["lit", "dk"] if nkey_default else ["none"]},
                                       {"name": "v", "type": ["int"], "default": ["lit", 0]},
                                       {"name": "notes", "type": ["list", ["str"]], "default": ["attr_factory", ["list", []]]}]})

    if profile.get("with_v"):
        world["classes"][0]["attrs"].append({"name": "h", "type": ["int"], "default": ["attr_default", 0], "init": False})
        world["classes"].append({"name": "V", "kind": "spec", "bases": [], "opts": {"init_overflow_attr": "opts"},
                                 "attrs": [{"name": "w", "type": ["int"], "default": ["lit", 0]}]})

    # split attributes between an optional parent P and M
    has_parent = profile.get("inheritance", True) and src.chance(1, 2) and len(attrs) >= 3
    p_attrs, m_attrs = [], attrs
    if has_parent:
        cut = 1 + src.choice(len(attrs) - 1)
        p_attrs, m_attrs = attrs[:cut], attrs[cut:]
        world["classes"].append({"name": "P", "kind": "spec", "bases": [], "opts": {}, "attrs": p_attrs})

    opts = {}
    if profile.get("frozen"):
        opts["frozen"] = True
    dnc = [a["name"] for a in attrs if a.get("do_not_copy") == "decorator"]
    if dnc:
        # decorator-level list applies to the class that declares the attribute
        pass
    mdesc = {"name": "M", "kind": "spec", "bases": ["P"] if has_parent else [], "opts": opts, "attrs": m_attrs}
    if has_parent and src.chance(1, 3):
        # M merely re-defaults an inherited attribute (class attribute, no annotation)
        a = src.pick(p_attrs)
        if a["default"][0] != "none" and not is_collection(a["type"]) and a["type"][0] not in ("spec",):
            mdesc["redefaults"] = {a["name"]: gen_value(src, a["type"], True)}
            if profile.get("flags", True) and src.chance(1, 3):
                # ... through an Attr(...) of its own (no new annotation): that declaration's flags replace the inherited ones
                mdesc["redeclared_flags"] = {a["name"]: {"compare": src.chance(1, 2), "repr": src.chance(1, 2)}}
            if profile.get("preparers", True) and a["type"][0] in PREPARERS and src.chance(1, 2):
                pdesc = world["classes"][-1]
                pdesc.setdefault("prepare", {})[a["name"]] = src.pick(PREPARERS[a["type"][0]])
                if len(PREPARERS[a["type"][0]]) > 1 and src.chance(2, 3):
                    # ... and M also brings its own `_prepare_<attr>`, which every route (assignment, constructor AND the
                    # inherited helpers) must then use
                    mdesc.setdefault("prepare", {})[a["name"]] = next(p for p in PREPARERS[a["type"][0]] if p != pdesc["prepare"][a["name"]])
                else:
                    # ... whose preparer the parent registered through `@<attr>.preparer` (it belongs to the attribute's
                    # specification, which the re-default must keep)
                    pdesc["prepare_style"] = "decorator"
                    if a["default"][0] in ("lit", "field_default"):
                        a["default"] = ["attr_default"] + a["default"][1:]
    world["classes"].append(mdesc)
    if profile.get("class_dnc") and src.chance(1, 8):
        # class-level do_not_copy=True: "effectively making all mutations in-place" - also the ones that then fail half-way
        mdesc["opts"]["do_not_copy"] = True
    if profile.get("cached_props") and src.chance(2, 3):
        cands = [a for a in m_attrs if a["default"][0] not in ("none", "attr_none") and not any(k in a for k in ("invalidated_by", "do_not_copy")) and a.get("init") is not False
                 and a["type"][0] in ("int", "list", "dict", "set") and a["name"] not in mdesc.get("redefaults", {})]
        def _strip(a):
            for k in ("repr", "compare"):
                a.pop(k, None)  # (a property takes the place of the Attr(...) declaration that carried these flags)

        views = [a for a in cands if a["type"][0] in ("list", "dict", "set")]
        if views and src.chance(1, 2):
            # a managed collection attribute that is a VIEW: its (non-caching) getter hands out a collection the instance itself
            # owns (kept under an unmanaged name, empty at first)
            v = src.pick(views)
            v["default"] = ["view_prop", v["type"][0]]
            _strip(v)
            cands = [a for a in cands if a is not v]
        if cands:
            a = src.pick(cands)
            a["default"] = ["cached_prop", a["default"][1]]
            _strip(a)
            rest = [b for b in cands if b is not a]
            if rest and src.chance(2, 3):
                # a second managed attribute derived WITHOUT caching from the cached one: reading it (as every update / transform /
                # element helper must) evaluates the caching getter too
                b = src.pick(rest)
                b["default"] = ["derived_prop", b["default"][1], a["name"]]
                _strip(b)
    for c in world["classes"]:
        d = [a["name"] for a in c["attrs"] if a.get("do_not_copy") == "decorator"]
        if d:
            c["opts"]["do_not_copy"] = d
            if src.chance(1, 4):
                c["dnc_as"] = "iterator"  # the names are handed over as a one-shot iterable
            elif len(d) == 1 and src.chance(1, 2):
                c["dnc_as"] = "string"  # a single attribute name, as a bare string

    # preparers
    if profile.get("preparers", True):
        for c in world["classes"]:
            if c["name"] in ("U", "N", "V"):
                continue
            for a in c["attrs"]:
                T = a["type"]
                if T[0] in PREPARERS and (T[0] != "opt" or T[1] == ["int"]) and src.chance(1, 3 if T[0] in ("spec", "opt") else 4) and a["name"] not in c.get("prepare", {}):
                    c.setdefault("prepare", {})[a["name"]] = src.pick(PREPARERS[T[0]])
                if is_collection(T) and elem_type(T)[0] in ITEM_PREPARERS and src.chance(1, 3):
                    c.setdefault("prepare_item", {})[a["name"]] = src.pick(ITEM_PREPARERS[elem_type(T)[0]])
                if profile.get("lookup_preparers"):
                    # a preparer that resolves a shorthand (any string) to an object the instance ALREADY holds elsewhere
                    if T[0] == "spec" and T[1] in ("U", "N") and src.chance(1, 3):
                        c.setdefault("prepare", {})[a["name"]] = "lookup"
                    elif is_collection(T) and elem_type(T)[0] == "spec" and T[0] in ("list", "dict") and src.chance(1, 4):
                        c.setdefault("prepare_item", {})[a["name"]] = "lookup"
            if (c.get("prepare") or c.get("prepare_item")) and src.chance(1, 3) and "prepare_style" not in c:
                c["prepare_style"] = "decorator"  # registered through `@<attr>.preparer` where the attribute is declared with Attr(...)
        if has_parent and src.chance(1, 3):
            # M overrides (or introduces) the `_prepare_<attr>` / `_prepare_<singular>` hook of an attribute it merely inherits
            pdesc = next(c for c in world["classes"] if c["name"] == "P")
            a = src.pick(p_attrs)
            T = a["type"]
            ways = []
            if T[0] in PREPARERS and len(PREPARERS[T[0]]) > 1 and a["name"] not in mdesc.get("prepare", {}):
                ways.append("attr")
            if is_collection(T) and elem_type(T)[0] in ITEM_PREPARER_PAIRS and a["name"] not in mdesc.get("prepare_item", {}):
                ways += ["item", "item"]
            way = src.pick(ways) if ways else None
            if way == "attr":
                mdesc.setdefault("prepare", {})[a["name"]] = next(p for p in PREPARERS[T[0]] if p != (pdesc.get("prepare") or {}).get(a["name"]))
            elif way == "item":
                first, second = ITEM_PREPARER_PAIRS[elem_type(T)[0]]
                mdesc.setdefault("prepare_item", {})[a["name"]] = second if (pdesc.get("prepare_item") or {}).get(a["name"]) == first else first

    inst = "M"
    if profile.get("inheritance", True):
        m = src.choice(4)
        if m == 0:
            # plain subclass overriding the class attribute of a defaulted scalar attr
            q = {"name": "Q", "kind": "plain", "bases": ["M"], "opts": {}, "attrs": []}
            cands = [a for a in attrs if a["default"][0] != "none" and a["default"][0] != "attr_none"]
            if profile.get("redefault_undefaulted", True):
                cands = cands + [a for a in attrs if a["default"][0] == "none"]  # the subclass is the first to give it a default
            if cands:
                a = src.pick(cands)
                q["redefaults"] = {a["name"]: conforming_default(gen_value(src, a["type"], True), a["type"])}
            ints = [a["name"] for a in attrs if a["type"] == ["int"] and a["name"] not in (q.get("redefaults") or {}) and a["name"] not in mdesc.get("prepare", {})
                    and not a.get("invalidated_by") and a.get("init") is not False]
            takers = [a["name"] for a in attrs if a["type"] in (["opt", ["int"]], ["union", [["int"], ["str"]]], ["float"], ["bounded", "int", {"ge": 0}])
                      and a["name"] not in (q.get("redefaults") or {}) and a.get("init") is not False]
            if profile.get("prop_override") and ints and takers and src.chance(2, 3):
                q["prop_override"] = {ints[0]: src.pick(takers)}
            world["classes"].append(q)
            inst = "Q"
        elif m == 1:
            extra = [x for x in ATTR_POOL if x[0] not in names and x[1][0] in ("int", "str", "list") and x[0] not in ("vee", "vees")]
            r = {"name": "R", "kind": "spec", "bases": ["M"], "opts": {}, "attrs": []}
            if extra:
                x = src.pick(extra)
                r["attrs"].append({"name": x[0], "type": x[1], "default": gen_default(src, x[1])})
            if profile.get("subclass_dnc") and src.chance(1, 2):
                cands = [a["name"] for a in attrs if is_collection(a["type"]) or a["type"][0] == "spec"]
                if cands:
                    r["opts"]["do_not_copy"] = [src.pick(cands)]
            world["classes"].append(r)
            inst = "R"
    world["instance_class"] = inst
    if profile.get("post_copy") and src.chance(1, 4):
        # "nested": the hook also sits on the nested classes U and N (it then fires whenever one of them is copied, e.g.
        # when a default holding one is restored for an invalidated attribute)
        world["post_copy"] = src.pick([True, "nested", "nested"])
    return world


# ---------------------------------------------------------------------------
# building real classes


class Injected(Exception):
    """Exception raised by a generated user callback according to the fault plan."""


class InjectedValueError(ValueError):
    pass


class World:
    def __init__(self, desc, build=True):
        self.desc = desc
        self.build_classes = build
        self.classes = {}
        self.calls = {}
        self.faults = {}  # (kind, name) -> set of invocation numbers (1-based) that raise
        self.fault_exc = Injected
        self.all_attrs = {}  # class name -> ordered {attr: attrdesc} incl. inherited
        self.default_objects = []  # every object written into a class body / Attr / field as a default
        self._build()

    # -- callbacks ---------------------------------------------------------
    def tick(self, kind, name):
        key = (kind, name)
        n = self.calls.get(key, 0) + 1
        self.calls[key] = n
        if n in self.faults.get(key, ()):
            raise self.fault_exc(f"injected fault in {kind}:{name} call {n}")

    def _preparer(self, kind, name, how):
        world = self

        def prepare(self, v):
            world.tick(kind, name)
            if how == "lookup":
                if isinstance(v, str):
                    T = POOL_TYPES[name]
                    found = _held_instance(self, world.classes[T[1] if T[0] == "spec" else elem_type(T)[1]])
                    if found is not None:
                        return found
                return v
            return apply_preparer(how, v)

        return prepare

    # -- types -------------------------------------------------------------
    def build_type(self, T):
        from spec_classes.types import KeyedList, KeyedSet
        from spec_classes.types.validated import bounded, validated

        k = T[0]
        if k == "any":
            return typing.Any
        if k in ("int", "str", "float"):
            return {"int": int, "str": str, "float": float}[k]
        if k == "opt":
            return typing.Optional[self.build_type(T[1])]
        if k == "union":
            return typing.Union[tuple(self.build_type(t) for t in T[1])]
        if k == "literal":
            return typing.Literal[tuple(T[1])]
        if k == "tuple":
            return typing.Tuple[tuple(self.build_type(t) for t in T[1])]
        if k == "vtuple":
            return typing.Tuple[self.build_type(T[1]), ...]
        if k == "bounded":
            key = repr(T)
            if key not in _VT:
                _VT[key] = bounded({"int": int, "float": float}[T[1]], **T[2])
            return _VT[key]
        if k == "validated":
            if T[1] not in _VT:
                _VT[T[1]] = validated(VALIDATORS[T[1]], name=T[1])
            return _VT[T[1]]
        if k == "list":
            return typing.List[self.build_type(T[1])]
        if k == "set":
            return typing.Set[self.build_type(T[1])]
        if k == "dict":
            return typing.Dict[self.build_type(T[1]), self.build_type(T[2])]
        if k == "spec":
            return self.classes[T[1]]
        if k == "keyedlist":
            return KeyedList[self.classes[T[1]], str]
        if k == "keyedset":
            return KeyedSet[self.classes[T[1]], str]
        raise AssertionError(T)

    # -- values ------------------------------------------------------------
    def realize(self, v):
        if isinstance(v, list):
            k = v[0]
            if k == "list":
                return [self.realize(x) for x in v[1]]
            if k == "tuple":
                return tuple(self.realize(x) for x in v[1])
            if k == "set":
                return {self.realize(x) for x in v[1]}
            if k == "dict":
                return {self.realize(a): self.realize(b) for a, b in v[1]}
            if k == "spec":
                return self.classes[v[1]](**{a: self.realize(b) for a, b in v[2].items()})
            if k in ("kl", "ks"):
                from spec_classes.types import KeyedList, KeyedSet

                return (KeyedList if k == "kl" else KeyedSet)([self.realize(x) for x in v[2]])
            if k == "$obj":
                import math

                if v[1] in ("speccls", "speccls2"):  # a spec CLASS (not an instance) as a value
                    return self.classes["U" if v[1] == "speccls" else "N"]
                return {"func": _module_level_function, "func2": _module_level_function2, "class": int, "class2": str, "module": math}[v[1]]
            if k in ("klintkey", "ksintkey"):
                from spec_classes.types import KeyedList, KeyedSet

                return (KeyedList if k == "klintkey" else KeyedSet)([self.realize(x) for x in v[2]], key=_int_key)
            if k in ("klraw", "ksraw"):
                from spec_classes.types import KeyedList, KeyedSet

                return (KeyedList if k == "klraw" else KeyedSet)(list(v[1]))
            raise AssertionError(v)
        return v

    # -- classes -----------------------------------------------------------
    def _build(self):
        from spec_classes import spec_class
        from spec_classes.types import Attr

        desc = self.desc
        for c in desc["classes"]:
            ns = {}
            ann = {}
            inherited = {}
            for b in c["bases"]:
                inherited.update(self.all_attrs[b])
            if not self.build_classes:
                merged = dict(inherited)
                merged.update({a["name"]: a for a in c["attrs"]})
                for name, fl in (c.get("redeclared_flags") or {}).items():
                    if name in merged:
                        merged[name] = dict({k: v for k, v in merged[name].items() if k not in ("init", "repr", "compare", "invalidated_by")}, **fl)
                self.all_attrs[c["name"]] = merged
                continue
            own = {}
            for a in c["attrs"]:
                ann[a["name"]] = self.build_type(a["type"])
                own[a["name"]] = a
                d = a["default"]
                style = d[0]
                flags = {k: a[k] for k in ("init", "repr", "compare") if k in a}
                if a.get("do_not_copy") == "attr":
                    flags["do_not_copy"] = True
                if a.get("invalidated_by"):
                    flags["invalidated_by"] = a["invalidated_by"]
                if style == "none":
                    pass
                elif style == "attr_none":
                    ns[a["name"]] = Attr(**flags)
                elif style == "cached_prop":
                    from spec_classes import spec_property

                    # a managed attribute whose value is derived (and cached on first read) until it is assigned
                    ns[a["name"]] = spec_property(self._factory_getter(d[1]), cache=True, overridable=True)
                elif style == "view_prop":
                    from spec_classes import spec_property

                    ns[a["name"]] = spec_property(_view_getter(a["name"], d[1]), cache=False, overridable=True)
                elif style == "derived_prop":
                    from spec_classes import spec_property

                    ns[a["name"]] = spec_property(self._factory_getter(d[1], reads=d[2]), cache=False, overridable=True)
                elif style == "lit":
                    ns[a["name"]] = self._default_obj(d[1])
                elif style == "attr_default":
                    ns[a["name"]] = Attr(default=self._default_obj(d[1]), **flags)
                elif style == "attr_factory":
                    ns[a["name"]] = Attr(default_factory=self._factory(d[1]), **flags)
                elif style == "field_default":
                    ns[a["name"]] = dataclasses.field(default=self._default_obj(d[1]))
                elif style == "field_factory":
                    ns[a["name"]] = dataclasses.field(default_factory=self._factory(d[1]))
                else:
                    raise AssertionError(d)
            for name, v in (c.get("redefaults") or {}).items():
                fl = (c.get("redeclared_flags") or {}).get(name)
                ns[name] = Attr(default=self._default_obj(v), **fl) if fl is not None else self._default_obj(v)
            for name, other in (c.get("prop_override") or {}).items():
                # an undecorated subclass turns an inherited (plain) managed attribute into a property whose setter assigns
                # ANOTHER managed attribute
                ns[name] = property(lambda self, _o=other: getattr(self, _o), lambda self, v, _o=other: setattr(self, _o, v))
            for name, how in (c.get("prepare") or {}).items():
                if c.get("prepare_style") == "decorator" and isinstance(ns.get(name), Attr):
                    ns[name].preparer(self._preparer("prepare", name, how))  # the `@<attr>.preparer` spelling
                else:
                    ns[f"_prepare_{name}"] = self._preparer("prepare", name, how)
            for name, how in (c.get("prepare_item") or {}).items():
                if c.get("prepare_style") == "decorator" and isinstance(ns.get(name), Attr):
                    ns[name].item_preparer(self._preparer("prepare_item", name, how))
                else:
                    ns[f"_prepare_{SINGULAR[name]}"] = self._preparer("prepare_item", name, how)
            if (desc.get("post_copy") and c["name"] == "M") or (desc.get("post_copy") == "nested" and c["name"] in ("U", "N")):
                world = self

                def __post_copy__(self, _name=c["name"], _counting=desc.get("post_copy") == "counting"):
                    world.tick("post_copy", _name)
                    if _counting:
                        # the documented use of the hook: keep a private tally on the copy
                        self.copy_count = getattr(self, "copy_count", 0) + 1

                ns["__post_copy__"] = __post_copy__
            if c.get("post_init_deepcopy"):
                def __post_init__(self):
                    import copy as _copy

                    self.twin = _copy.deepcopy(self)  # a copy taken while construction is still in progress

                ns["__post_init__"] = __post_init__
            views = [(a["name"], a["default"][1]) for a in c["attrs"] if a["default"][0] == "view_prop"]
            if views and "__post_init__" not in ns:
                def __post_init__(self, _views=tuple(views)):
                    # the collections behind the view attributes belong to the instance from the start
                    for name, kind in _views:
                        vars(self).setdefault(f"_backing_{name}", {"list": list, "dict": dict, "set": set}[kind]())

                ns["__post_init__"] = __post_init__
            if c.get("user_new") == "super":
                # the cooperative form: defer to whatever __new__ comes next in the MRO
                def __new__(cls, *args, _name=c["name"], **kwargs):
                    nxt = super(self.classes[_name], cls).__new__
                    inst = nxt(cls) if nxt is object.__new__ else nxt(cls, *args, **kwargs)
                    object.__setattr__(inst, f"made_by_{_name}_new", True)
                    return inst

                ns["__new__"] = __new__
            elif c.get("user_new"):
                def __new__(cls, *args, **kwargs):
                    inst = object.__new__(cls)
                    object.__setattr__(inst, "made_by_user_new", True)
                    return inst

                ns["__new__"] = __new__
            if c.get("helper_method"):
                def helper(self):
                    return 1

                def helper2(self):
                    return 2

                ns["helper"] = helper
                ns["helper2"] = helper2
            if ann:
                ns["__annotations__"] = ann
            ns["__module__"] = "vf.generated"
            ns["__qualname__"] = c["name"]
            bases = [self.classes[b] for b in c["bases"]]
            if c.get("new_mixin"):
                # an unrelated plain base class that defines __new__ (placed before or after the other bases)
                mixin = _make_new_mixin(c["name"])
                if c["new_mixin"] == "first":
                    bases = [mixin] + bases
                elif c["new_mixin"] == "after_plain":
                    # ... behind another unrelated plain base that has no __new__ of its own
                    bases = bases + [type("PlainBase", (), {"__module__": "vf.generated"}), mixin]
                else:
                    bases = bases + [mixin]
            cls = type(c["name"], tuple(bases), ns)
            if c["kind"] == "spec":
                opts = dict(c.get("opts") or {})
                if c.get("dnc_as") == "iterator" and isinstance(opts.get("do_not_copy"), list):
                    opts["do_not_copy"] = iter(opts["do_not_copy"])  # documented type: Iterable[str]
                if c.get("dnc_as") == "string" and isinstance(opts.get("do_not_copy"), list) and len(opts["do_not_copy"]) == 1:
                    opts["do_not_copy"] = opts["do_not_copy"][0]
                eager = desc.get("eager", False) if c["name"] not in ("U", "N", "V") else True
                cls = spec_class(bootstrap=eager, **opts)(cls)
            self.classes[c["name"]] = cls
            merged = dict(inherited)
            merged.update(own)
            for name, fl in (c.get("redeclared_flags") or {}).items():
                if name in merged:
                    # an own Attr(...) declaration: flags not given fall back to Attr's defaults, not to the parent's
                    merged[name] = dict({k: v for k, v in merged[name].items() if k not in ("init", "repr", "compare", "invalidated_by")}, **fl)
            self.all_attrs[c["name"]] = merged

    def _default_obj(self, vdesc):
        v = self.realize(vdesc)
        self.default_objects.append(v)
        return v

    def _factory_getter(self, vdesc, reads=None):
        world = self

        def getter(instance):
            if reads is not None:
                getattr(instance, reads, None)
            return world.realize(vdesc)

        return getter

    def _factory(self, vdesc):
        world = self

        def factory():
            return world.realize(vdesc)

        return factory

    @property
    def cls(self):
        return self.classes[self.desc["instance_class"]]

    def attrs(self, cname=None):
        return self.all_attrs[cname or self.desc["instance_class"]]

    def class_desc(self, cname):
        for c in self.desc["classes"]:
            if c["name"] == cname:
                return c
        raise KeyError(cname)

    def mro_descs(self, cname=None):
        """Class descriptors along the (linear) MRO of cname, most derived first."""
        out = []
        cur = cname or self.desc["instance_class"]
        while cur:
            c = self.class_desc(cur)
            out.append(c)
            cur = c["bases"][0] if c["bases"] else None
        return out

    def declared_default(self, attr, cname=None):
        """The default the descriptor prescribes for `attr` on class cname: nearest class along the MRO
        that gives the name a value (re-default) or declares it with a default. Returns a default
        descriptor like ["lit", v] / ["attr_factory", v] / ["none"]."""
        for c in self.mro_descs(cname):
            if attr in (c.get("redefaults") or {}):
                return ["lit", c["redefaults"][attr]]
            for a in c["attrs"]:
                if a["name"] == attr:
                    d = a["default"]
                    if d[0] in ("none", "attr_none"):
                        continue  # declared without a default here: an inherited class attribute may still apply
                    return d
        return ["none"]

    def prepare_kind(self, attr, item=False):
        for c in self.mro_descs():
            how = (c.get("prepare_item" if item else "prepare") or {}).get(attr)
            if how:
                return how
        return None


def _module_level_function(x=None):
    return x


def _module_level_function2(x=None):
    return x


_VT = {}
# (the validator answers like re.fullmatch does: something truthy, or None - any falsy answer is a rejection)
VALIDATORS = {"nonempty_str": lambda v: (isinstance(v, str) and len(v) > 0) or None}


def apply_preparer(how, v):
    if how == "abs":
        return abs(v) if isinstance(v, (int, float)) and not isinstance(v, bool) else v
    if how == "strip":
        return v.strip() if isinstance(v, str) else v
    if how == "neg_abs":
        return -abs(v) if isinstance(v, (int, float)) and not isinstance(v, bool) else v
    if how == "upper":
        return v.upper() if isinstance(v, str) else v
    if how == "floor":
        return float(int(v // 1)) if isinstance(v, (int, float)) and not isinstance(v, bool) else v
    if how == "cast_list":
        return list(v) if isinstance(v, tuple) else v
    if how == "noop":
        return v
    if how == "bad_if_5":
        return "BAD" if v == 5 and not isinstance(v, bool) else v
    if how == "none_to_zero":
        return 0 if v is None else v
    raise AssertionError(how)


def _view_getter(name, kind):
    def getter(instance):
        return vars(instance).setdefault(f"_backing_{name}", {"list": list, "dict": dict, "set": set}[kind]())

    return getter


def _held_instance(obj, cls):
    """The first instance of `cls` held (directly or in a plain / keyed container) by an attribute of `obj`."""
    for name in sorted(vars(obj)):
        v = vars(obj)[name]
        items = list(v.values()) if isinstance(v, dict) else (list(v) if isinstance(v, (list, tuple)) or hasattr(v, "_dict") else [v])
        for x in items:
            if type(x) is cls:
                return x
    return None


def _make_new_mixin(owner_name):
    class NewMixin:
        def __new__(cls, *args, **kwargs):
            nxt = super(NewMixin, cls).__new__
            inst = nxt(cls) if nxt is object.__new__ else nxt(cls, *args, **kwargs)
            object.__setattr__(inst, f"stamped_by_mixin_of_{owner_name}", True)
            return inst

    return NewMixin


def _int_key(item):
    k = getattr(item, "k", "")
    return sum(ord(c) for c in k) * 31 + len(k)


def build_world(desc):
    return World(desc)


def world_info(desc):
    """Descriptor-only view (no classes are created): enough for the op generators."""
    return World(desc, build=False)


PROFILES = {
    "data": dict(max_attrs=7, do_not_copy_attrs=True),
    "data_plain": dict(max_attrs=7, do_not_copy_attrs=False),
    "data_dnc": dict(max_attrs=7, do_not_copy_attrs=True, frozen_nested=True, post_copy=False),
    "frozen": dict(max_attrs=6, frozen=True),
}
