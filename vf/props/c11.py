"""
C11 - derived values are never stale after a dependency changes.

Oracle: dirty-closure model. Every derived node (spec_property with cache / overridable options, or an
attribute declared invalidated_by) has declared dependencies; getters are generated pure functions of exactly
those dependencies with call counters. After any successful mutation of a dependency (any attribute for '*'),
transitively, the next read recomputes from current state (or finds the attribute at its default); an override
survives only while nothing in its dependency closure was written. Unrelated and failed mutations discard
nothing (getter counters unchanged on the next read of a cached value).
"""
from __future__ import annotations

import copy

from hypothesis import strategies as st

from vf import grammar
from vf.runner import run_given

ID = "C11"
LEVEL = "exploration"
RULE = (
    "cases = (dependency graph over <= 4 derived nodes on top of base attributes x, y (managed ints), u (unmanaged), nums (managed list, observed through len): "
    "spec_property nodes with cache on/off, overridable on/off, invalidated_by lists or '*', Attr(invalidated_by=) nodes, chains, dependants declared in a spec "
    "subclass, caches filled in __post_init__; history of <= 14 ops interleaving reads, overrides and every mutation entry point: assignment, deletion, "
    "with_/transform_/reset_ helpers (in place and copy), element helpers, top-level update/transform/reset, some failing on purpose). Non-trivial = a cache "
    "fill or override followed by a successful mutation of a dependency at distance >= 1 and a later read; distinct = canonical JSON of the case."
)
ASSUMPTIONS = [
    "a write of an equal value may or may not drop an override (only value staleness is asserted)",
    "dependants are declared on spec-decorated classes; dependency cycles are not generated",
    "getters depend on scalar attributes and on len() of a list attribute changed through this instance's API only",
]
BASES = ["x", "y", "u", "nums"]
DEFAULTS = {"x": 1, "y": 2, "u": 5, "nums": []}


def gen_graph(src):
    use_u = src.chance(1, 2)
    use_xs = src.chance(1, 2)
    bases = ["x", "y"] + (["u"] if use_u else []) + (["nums"] if use_xs else [])
    nodes = []
    n = 1 + src.choice(4)
    for i in range(n):
        name = "pqrs"[i]
        avail = bases + [m["name"] for m in nodes]
        if src.chance(1, 6):
            deps = "*"
        else:
            k = 1 + src.choice(min(3, len(avail)))
            deps = []
            # prefer chains: the previous derived node is a likely dependency
            if nodes and src.chance(1, 2):
                deps.append(nodes[-1]["name"])
            while len(deps) < k:
                d = src.pick(avail)
                if d not in deps:
                    deps.append(d)
        if src.chance(1, 4):
            nodes.append({"name": name, "kind": "attr", "deps": deps if deps != "*" else [src.pick(bases)], "default": 100 + i, "factory": src.chance(1, 2)})
        else:
            nodes.append({"name": name, "kind": "prop", "deps": deps, "cache": src.chance(3, 4), "overridable": src.chance(1, 2),
                          "weights": [1 + src.choice(3) for _ in range(len(avail) if deps == "*" else len(deps))]})
    for m_ in nodes:
        if m_["kind"] == "prop" and src.chance(1, 4):
            m_["chained"] = True
    return {"override_unmanaged": src.chance(1, 2), "bases": bases, "nodes": nodes, "subclass": src.pick([False, False, True, "parent_holds_all", "plain_sub", "override_prop", "plain_override_prop"]), "post_init_read": [m["name"] for m in nodes if m["kind"] == "prop" and src.chance(1, 4)],
            "post_init_write": src.pick([None, None, "x", "y"]),  # a dependency is (also) written inside __post_init__, after the reads
            "eager": src.chance(1, 2)}


OPS_BASE = ["set", "del", "with_inplace", "with_copy", "transform_inplace", "reset_copy", "reset_inplace", "update_inplace", "update_copy", "transform_top", "set_bad", "with_bad"]


def gen_ops(src, g):
    ops = []
    names = [m["name"] for m in g["nodes"]]
    for _ in range(2 + src.choice(13)):
        r = src.choice(10)
        if r <= 3:
            ops.append(["read", src.pick(names)])
        elif r == 4:
            ops.append(["override", src.pick(names), 7000 + src.choice(3)])
        elif r == 5:
            ops.append(["del_derived", src.pick(names)])
        elif r == 6 and "nums" in g["bases"]:
            ops.append([src.pick(["elem_with_inplace", "elem_with_copy", "elem_without_inplace"]), "nums", src.choice(3)])
        elif r == 7:
            ops.append(["reset_all", src.pick(["inplace", "copy"])])
        else:
            b = src.pick(g["bases"])
            kind = src.pick(OPS_BASE)
            if b == "u" and kind not in ("set", "del", "set_bad"):
                kind = "set"
            ops.append([kind, b, 10 + src.choice(5)])
    return ops


@st.composite
def case_strategy(draw):
    src = grammar.HypSource(draw)
    g = gen_graph(src)
    case = {"graph": g, "ops": gen_ops(src, g)}
    if g["subclass"] and src.chance(1, 2):
        # an instance of the PARENT class is created and mutated first: what the library learns about the parent's dependants
        # must not be applied to the subclass (which has more of them)
        case["parent_first"] = src.pick(["x", "y"])
    return case


def build(g, counters):
    from typing import List

    from spec_classes import spec_class, spec_property
    from spec_classes.types import Attr

    base_ns = {"__annotations__": {"x": int, "y": int}, "x": 1, "y": 2}
    if "nums" in g["bases"]:
        base_ns["__annotations__"]["nums"] = List[int]
        base_ns["nums"] = Attr(default_factory=list)
    if "u" in g["bases"]:
        base_ns["u"] = 5
    derived_ns = {"__annotations__": {}}

    def getter(node):
        deps = g["bases"] + [m["name"] for m in g["nodes"][: g["nodes"].index(node)]] if node["deps"] == "*" else node["deps"]
        if node["deps"] == "*":
            deps = [d for d in deps if d in g["bases"]]
        ws = node["weights"]

        def fget(self):
            counters[node["name"]] = counters.get(node["name"], 0) + 1
            total = 0
            for w, d in zip(ws, deps):
                v = getattr(self, d)
                total += w * (len(v) if isinstance(v, list) else v)
            return total

        fget.__name__ = node["name"]
        return fget

    for node in g["nodes"]:
        if node["kind"] == "attr":
            derived_ns["__annotations__"][node["name"]] = int
            if node.get("factory"):  # (the default comes from a factory: nothing sits in the class body to fall back on)
                derived_ns[node["name"]] = Attr(default_factory=lambda _v=node["default"]: _v, invalidated_by=list(node["deps"]))
            else:
                derived_ns[node["name"]] = Attr(default=node["default"], invalidated_by=list(node["deps"]))
        else:
            derived_ns[node["name"]] = spec_property(getter(node), cache=node["cache"], overridable=node["overridable"],
                                                     invalidated_by="*" if node["deps"] == "*" else list(node["deps"]))
            if node.get("chained"):
                # built the decorator way: `.getter(...)` returns a new property, which must know its dependencies, too
                derived_ns[node["name"]] = derived_ns[node["name"]].getter(getter(node))
    reads = list(g["post_init_read"])
    write = g.get("post_init_write")

    def __post_init__(self):
        for n in reads:
            getattr(self, n)
        if write:
            setattr(self, write, getattr(self, write) + 1)

    if g["subclass"] == "parent_holds_all":
        # everything (bases and dependants) is declared on the parent; the instance class is an (otherwise empty) spec subclass
        ns = dict(base_ns, __module__="vf.generated")
        ns["__annotations__"] = dict(base_ns["__annotations__"], **derived_ns["__annotations__"])
        ns.update({k: v for k, v in derived_ns.items() if k != "__annotations__"})
        if reads or write:
            ns["__post_init__"] = __post_init__
        P = spec_class(bootstrap=g["eager"])(type("P", (), ns))
        M = spec_class(bootstrap=g["eager"])(type("M", (P,), {"__module__": "vf.generated", "__annotations__": {"extra": int}, "extra": 0}))
    elif g["subclass"] in ("plain_sub", "override_prop", "plain_override_prop") and all(set(m["deps"]) <= set(g["bases"]) for m in g["nodes"] if m["kind"] == "attr"):
        # the parent declares the bases and the invalidated attributes; the derived properties come from
        #  - "plain_sub": an UNDECORATED subclass (which shares the parent's metadata), or
        #  - "override_prop": a spec subclass that overrides managed properties the parent declared without any dependencies
        pns = dict(base_ns, __module__="vf.generated")
        pns["__annotations__"] = dict(base_ns["__annotations__"])
        sub_ns = {"__module__": "vf.generated"}
        for node in g["nodes"]:
            if node["kind"] == "attr":
                pns["__annotations__"][node["name"]] = int
                pns[node["name"]] = derived_ns[node["name"]]
            else:
                sub_ns[node["name"]] = derived_ns[node["name"]]
                if g["subclass"] in ("override_prop", "plain_override_prop"):  # (the latter: overridden by an UNDECORATED subclass)
                    if _unmanaged_override(g):
                        # the parent's version is UNMANAGED and depends on something else (a base the override does not name):
                        # for the subclass only the override's own dependencies count
                        others = [b for b in g["bases"] if b not in node["deps"] and b != "nums"]
                        pns[node["name"]] = spec_property(getter(node), cache=node["cache"], overridable=node["overridable"], invalidated_by=others[:1])
                    else:
                        pns["__annotations__"][node["name"]] = int
                        pns[node["name"]] = spec_property(getter(node), cache=node["cache"], overridable=node["overridable"])
        if reads or write:
            sub_ns["__post_init__"] = __post_init__
        P = spec_class(bootstrap=g["eager"])(type("P", (), pns))
        M = type("M", (P,), sub_ns)
        if g["subclass"] == "override_prop":
            M = spec_class(bootstrap=g["eager"])(M)
    elif g["subclass"]:
        P = spec_class(bootstrap=g["eager"])(type("P", (), dict(base_ns, __module__="vf.generated")))
        ns = dict(derived_ns, __module__="vf.generated")
        if reads or write:
            ns["__post_init__"] = __post_init__
        M = spec_class(bootstrap=g["eager"])(type("M", (P,), ns))
    else:
        ns = dict(base_ns, __module__="vf.generated")
        ns["__annotations__"] = dict(base_ns["__annotations__"], **derived_ns["__annotations__"])
        ns.update({k: v for k, v in derived_ns.items() if k != "__annotations__"})
        if reads or write:
            ns["__post_init__"] = __post_init__
        M = spec_class(bootstrap=g["eager"])(type("M", (), ns))
    return M


class Model:
    def __init__(self, g):
        self.g = g
        self.base = {b: copy.copy(DEFAULTS[b]) for b in g["bases"]}
        self.nodes = {m["name"]: m for m in g["nodes"]}
        self.slot = {}  # derived prop -> ("cache"|"override", value)
        self.zval = {m["name"]: m["default"] for m in g["nodes"] if m["kind"] == "attr"}

    def clone(self):
        m = Model(self.g)
        m.base = copy.deepcopy(self.base)
        m.slot = dict(self.slot)
        m.zval = dict(self.zval)
        return m

    def deps_of(self, node):
        if node["deps"] == "*":
            return [d for d in self.g["bases"]]
        return node["deps"]

    def value(self, name):
        if name in self.base:
            v = self.base[name]
            return len(v) if isinstance(v, list) else v
        node = self.nodes[name]
        if node["kind"] == "attr":
            return self.zval[name]
        return self.read(name)[0]  # a getter reading another property fills that property's cache too

    def read(self, name):
        """returns (value, getter_called: True/False/None(unknown))"""
        node = self.nodes[name]
        if node["kind"] == "attr":
            return self.zval[name], False
        if name in self.slot and (node["cache"] or node["overridable"]):
            return self.slot[name][1], False
        v = sum(w * self.value(d) for w, d in zip(node["weights"], self.deps_of(node)))
        if node["cache"]:
            self.slot[name] = ("cache", v)
        return v, True

    def changed(self, attr):
        """`attr` (base or derived) was successfully written / reset: invalidate dependants transitively."""
        seen = {attr}  # the attribute being written is never reset by its own cascade

        def walk(a):
            for m in self.g["nodes"]:
                n = m["name"]
                if n == a or n in seen:
                    continue
                hit = m["deps"] == "*" or a in m["deps"]
                if hit:
                    seen.add(n)
                    if m["kind"] == "attr":
                        self.zval[n] = m["default"]
                    else:
                        self.slot.pop(n, None)
                    walk(n)

        walk(attr)
        return seen - {attr}


def run_case(ctx, case):
    g = case["graph"]
    counters = {}
    M = build(g, counters)
    if case.get("parent_first") and len(M.__mro__) > 2 and hasattr(M.__mro__[1], "__spec_class__"):
        try:
            p = M.__mro__[1]()
            setattr(p, case["parent_first"], 7)
            delattr(p, case["parent_first"])
        except Exception:
            pass
        counters.clear()
    obj = M()
    model = Model(g)
    for n in g["post_init_read"]:
        model.read(n)
    if g.get("post_init_write"):
        model.base[g["post_init_write"]] += 1
        model.changed(g["post_init_write"])
    filled_then_changed = False
    pending = set()  # derived nodes with a fill/override whose dependency has changed since, awaiting a read
    nontrivial = False
    for i, op in enumerate(case["ops"]):
        kind = op[0]
        tag = kind
        try:
            if kind == "read":
                name = op[1]
                before = counters.get(name, 0)
                exp, called = model.read(name)
                got = getattr(obj, name)
                if got != exp:
                    node = model.nodes[name]
                    desc = f"{node['kind']}:{'cache' if node.get('cache') else 'nocache'}:{'star' if node['deps'] == '*' else 'chain' if any(d in model.nodes for d in node['deps']) else 'direct'}"
                    ctx.fail(f"read|stale|{desc}", case, f"step {i}: {name} reads {got!r}, recomputing from current state gives {exp!r} (base={model.base}, slots={model.slot})")
                    return
                if called is False and model.nodes[name]["kind"] == "prop" and counters.get(name, 0) != before:
                    ctx.fail("read|needless_recompute", case, f"step {i}: {name} was cached/overridden and nothing it depends on changed, but its getter ran again")
                    return
                if name in pending:
                    nontrivial = True
                    pending.discard(name)
            elif kind == "override":
                name, v = op[1], op[2]
                node = model.nodes[name]
                if node["kind"] == "attr":
                    obj.__setattr__(name, v)
                    model.zval[name] = v
                    for d in model.changed(name):
                        pending.add(d)
                else:
                    try:
                        setattr(obj, name, v)
                    except AttributeError:
                        if node["overridable"]:
                            ctx.fail("override|refused", case, f"step {i}: overriding {name} raised AttributeError although it is overridable")
                            return
                        continue
                    if not node["overridable"]:
                        ctx.fail("override|accepted", case, f"step {i}: {name} is not overridable but the assignment succeeded")
                        return
                    model.slot[name] = ("override", v)
                    for d in model.changed(name):
                        pending.add(d)
            elif kind == "del_derived":
                name = op[1]
                node = model.nodes[name]
                if node["kind"] == "attr":
                    delattr(obj, name)
                    model.zval[name] = node["default"]
                    for d in model.changed(name):
                        pending.add(d)
                else:
                    try:
                        delattr(obj, name)
                    except AttributeError:
                        if name in model.slot:
                            ctx.fail("del_derived|refused", case, f"step {i}: deleting the cache/override of {name} raised")
                            return
                        continue
                    if name not in model.slot:
                        if managed_props(case["graph"]):
                            continue  # a managed property is an attribute with a default: deleting "nothing" resets it, no error
                        ctx.fail("del_derived|accepted", case, f"step {i}: nothing to delete for {name} but no AttributeError")
                        return
                    del model.slot[name]
                    for d in model.changed(name):
                        pending.add(d)
            else:
                obj, model, ok, target = apply_mutation(ctx, case, i, obj, model, op)
                if ok is None:
                    return
                if ok:
                    for b in target:
                        for d in model.changed(b):
                            pending.add(d)
        except (TypeError, ValueError, AttributeError, KeyError, IndexError) as e:
            ctx.fail(f"{tag}|unexpected_raise:{type(e).__name__}", case, f"step {i} {op} raised {e!r}")
            return
        ctx.count(f"op:{kind}")
    # final sweep: every derived node must read fresh
    for name in model.nodes:
        exp, _ = model.read(name)
        got = getattr(obj, name)
        if got != exp:
            node = model.nodes[name]
            desc = f"{node['kind']}:{'cache' if node.get('cache') else 'nocache'}:{'star' if node['deps'] == '*' else 'chain' if any(d in model.nodes for d in node['deps']) else 'direct'}"
            ctx.fail(f"read|stale|{desc}", case, f"final read: {name} is {got!r}, recomputing gives {exp!r} (base={model.base})")
            return
        if name in pending:
            nontrivial = True
    ctx.case(case, nontrivial)


def _unmanaged_override(g):
    """The overridden properties are left unannotated (unmanaged) on the parent - only when none of them depends on '*'."""
    return bool(g.get("override_unmanaged")) and not any(m["kind"] == "prop" and m["deps"] == "*" for m in g["nodes"])


def managed_props(g):
    """override_prop shape (when it applies): the properties are annotated on the parent, hence managed attributes."""
    return (g["subclass"] in ("override_prop", "plain_override_prop") and all(set(m["deps"]) <= set(g["bases"]) for m in g["nodes"] if m["kind"] == "attr")
            and not _unmanaged_override(g))


def apply_mutation(ctx, case, i, obj, model, op):
    """returns (obj, model, ok, changed_base_attrs); ok None = violation reported."""
    kind, b = op[0], op[1]
    v = op[2] if len(op) > 2 else None
    if kind == "reset_all":
        target = obj if b == "inplace" else None
        new = obj.reset(_inplace=(b == "inplace"))
        m2 = model if b == "inplace" else model.clone()
        changed = []
        for a in m2.base:
            if a == "u":
                continue
            m2.base[a] = copy.copy(DEFAULTS[a])
            changed.append(a)
        for n, node in m2.nodes.items():
            if node["kind"] == "attr":
                m2.zval[n] = node["default"]
                changed.append(n)
            elif managed_props(case["graph"]):
                # managed (annotated) properties are attributes: reset() restores their default, i.e. drops cache / override
                m2.slot.pop(n, None)
                changed.append(n)
        m2.slot_backup = None
        if b == "copy":
            return _adopt(ctx, case, i, obj, model, new, m2, changed)
        return obj, model, True, changed
    if kind.startswith("elem_"):
        inplace = kind.endswith("inplace")
        if kind.startswith("elem_with"):
            new = obj.with_num(v, _inplace=inplace)
            m2 = model if inplace else model.clone()
            m2.base["nums"] = m2.base["nums"] + [v]
        else:
            if not model.base["nums"]:
                return obj, model, False, []
            new = obj.without_num(0, _by_index=True, _inplace=inplace)
            m2 = model if inplace else model.clone()
            m2.base["nums"] = m2.base["nums"][1:]
        if inplace:
            return obj, model, True, ["nums"]
        return _adopt(ctx, case, i, obj, model, new, m2, ["nums"])
    val = [v] if b == "nums" else v
    if kind in ("set_bad", "with_bad"):
        bad = "bad" if b != "u" else None
        if bad is None:
            return obj, model, False, []
        snapshot = (dict(model.slot), dict(model.zval))
        try:
            if kind == "set_bad":
                setattr(obj, b, bad)
            else:
                getattr(obj, f"with_{b}")(bad, _inplace=True)
        except (TypeError, ValueError):
            return obj, model, False, []  # failed mutation: nothing may be discarded (checked by later reads / counters)
        ctx.fail("bad_value|accepted", case, f"step {i}: ill-typed value accepted for {b}")
        return obj, model, None, []
    if kind == "set":
        setattr(obj, b, val)
        model.base[b] = val
        return obj, model, True, [b]
    if kind == "del":
        try:
            delattr(obj, b)
        except AttributeError:
            return obj, model, False, []
        model.base[b] = copy.copy(DEFAULTS[b])
        return obj, model, True, [b]
    copying = kind.endswith("copy") or kind == "transform_top"
    m2 = model.clone() if copying else model
    if kind in ("with_inplace", "with_copy"):
        new = getattr(obj, f"with_{b}")(val, _inplace=not copying)
        m2.base[b] = val
    elif kind == "transform_inplace":
        if b == "nums":
            new = obj.transform_nums(lambda l: l + [v], _inplace=True)
            m2.base[b] = m2.base[b] + [v]
        else:
            new = getattr(obj, f"transform_{b}")(lambda q: q + 1, _inplace=True)
            m2.base[b] = m2.base[b] + 1
    elif kind in ("reset_copy", "reset_inplace"):
        new = getattr(obj, f"reset_{b}")(_inplace=not copying)
        m2.base[b] = copy.copy(DEFAULTS[b])
    elif kind in ("update_inplace", "update_copy"):
        new = obj.update(**{b: val}, _inplace=not copying)
        m2.base[b] = val
    elif kind == "transform_top":
        if b == "nums":
            new = obj.transform(nums=lambda l: l + [v])
            m2.base[b] = m2.base[b] + [v]
        else:
            new = obj.transform(**{b: (lambda q: q + 2)})
            m2.base[b] = m2.base[b] + 2
    else:
        raise AssertionError(op)
    if not copying:
        return obj, model, True, [b]
    return _adopt(ctx, case, i, obj, model, new, m2, [b])


def _adopt(ctx, case, i, obj, model, new, m2, changed):
    """Copy op: the receiver must keep its caches (checked on a later read through counters); continue on the copy."""
    if new is obj:
        ctx.fail("copy|returned_receiver", case, f"step {i}: copy-on-write helper returned the receiver")
        return obj, model, None, []
    # the receiver is untouched: spot-check one derived value against the old model (without filling caches in the model)
    for name in model.nodes:
        if model.nodes[name]["kind"] == "attr" and getattr(obj, name) != model.zval[name]:
            ctx.fail("copy|receiver_changed", case, f"step {i}: receiver's {name} changed during a copy-on-write call")
            return obj, model, None, []
    return new, m2, True, changed


BOUNDS = {"quick": dict(examples=2000, units=16), "thorough": dict(examples=6000, units=16)}


def units(tier, seed):
    return [["hyp", i] for i in range(BOUNDS[tier]["units"])]


def run_unit(ctx, unit):
    b = BOUNDS[ctx.tier]
    run_given(ctx, lambda case: run_case(ctx, case), {"case": case_strategy()}, b["examples"], ctx.seed * 1000 + unit[1])


def replay(ctx, case):
    run_case(ctx, case)
