"""
C12 - spec_property and classproperty follow the override / cache / getter protocol.

Oracle: explicit protocol state machines (override/cache slot x underlying state),
run in lock-step with real descriptors on plain and spec-class hosts.
"""

from __future__ import annotations

import itertools

from hypothesis import strategies as st

from vf.runner import run_given

ID = "C12"
LEVEL = "exploration"
RULE = (
    "spec_property: all 16 (overridable, cache, setter, deleter) combinations x 4 hosts (plain class, spec class unmanaged, spec class "
    "with managed int annotation, managed + preparer) x every op sequence up to the bound over {read, assign 5, assign 7, assign None, "
    "assign 'x' (ill-typed on managed hosts), delete, state:=2, state:=3, state:='bad' (getter then returns an ill-typed value)}; "
    "classproperty: all 32 (overridable, cache, cache_per_subclass, setter, deleter) combinations over a three-class chain x every sequence "
    "up to the bound over {read via class/instance of A/B/C, assign / delete via instance of A/B/C, change A/B/C state}; Hypothesis op lists "
    "(<= 40 ops) beyond the bound. Oracle = protocol state machine. Non-trivial = length >= 3 with a read after a state change; "
    "distinct = canonical JSON of (kind, config, ops)."
)
ASSUMPTIONS = [
    "custom setter/deleter are modelled as user code that writes/resets the underlying state (self.base = v / self.base = 0)",
    "an ill-typed assignment on a managed host may raise TypeError or AttributeError (both leave everything unchanged)",
    "classproperty assignment/deletion is exercised through instances only (class-level assignment replaces the descriptor by design)",
]

LETTERS_SP = [["read"], ["assign", 5], ["assign", 7], ["assign", None], ["assign", "x"], ["delete"], ["state", 2], ["state", 3], ["state", "bad"]]
HOSTS = ["plain", "spec_unmanaged", "spec_managed", "spec_managed_prep",
         # the property is inherited (from a spec parent that does not manage it / from a plain mixin) and it is the
         # spec subclass that declares the managed annotation and the preparer
         "inh_managed_prep", "mixin_managed",
         # the spec parent declares the managed property (no preparer); a subclass - undecorated / decorated - merely adds the
         # `_prepare_p` hook, which applies to getter results and overrides alike
         "plain_sub_prep_only", "spec_sub_prep_only"]
MANAGED = ("spec_managed", "spec_managed_prep", "inh_managed_prep", "mixin_managed", "plain_sub_prep_only", "spec_sub_prep_only")
PREPARED = ("spec_managed_prep", "inh_managed_prep", "plain_sub_prep_only", "spec_sub_prep_only")
CLEAN = (AttributeError, TypeError, ValueError)

_CLS_CACHE = {}


def _prep(v):
    return v + 1 if isinstance(v, int) and not isinstance(v, bool) else v


def sp_host(cfg):
    key = tuple(sorted(cfg.items()))
    if key in _CLS_CACHE:
        return _CLS_CACHE[key]
    from spec_classes import spec_class, spec_property

    def fget(self):
        b = self.base
        return b * 10 if isinstance(b, int) else b

    if cfg.get("no_getter"):
        fget = None  # declared without a getter: reads fail until a value has been assigned (an override), then return it

    def fset(self, v):
        self.base = v

    def fdel(self):
        self.base = 0

    # invalidated_by="*": every mutation of another attribute drops the cache / the override - but not the assignment of the
    # property itself
    star = {"invalidated_by": "*"} if cfg.get("star") else {}
    if cfg.get("form") == "decorator":
        # the documented decorator spelling: every `.getter` / `.setter` / `.deleter` step returns a new property, which must
        # keep all the options of the one it was derived from
        prop = spec_property(fget, overridable=cfg["overridable"], cache=cfg["cache"], **star)
        if cfg["setter"]:
            prop = prop.setter(fset)
        if cfg["deleter"]:
            prop = prop.deleter(fdel)
        prop = prop.getter(fget)
    else:
        prop = spec_property(fget, fset if cfg["setter"] else None, fdel if cfg["deleter"] else None,
                             overridable=cfg["overridable"], cache=cfg["cache"], **star)
    ns = {"base": 1, "p": prop}
    host = cfg["host"]
    bases = ()
    if host in ("inh_managed_prep", "mixin_managed"):
        parent = type("B", (), ns)
        if host == "inh_managed_prep":
            parent = spec_class(bootstrap=bool(cfg.get("eager", True)))(parent)
        bases, ns = (parent,), {}
    if host in ("plain_sub_prep_only", "spec_sub_prep_only"):
        parent = spec_class(bootstrap=bool(cfg.get("eager", True)))(type("B", (), dict(ns, __annotations__={"p": int})))
        cls = type("H", (parent,), {"_prepare_p": lambda self, v: _prep(v)})
        if host == "spec_sub_prep_only":
            cls = spec_class(bootstrap=bool(cfg.get("eager", True)))(cls)
        _CLS_CACHE[key] = cls
        return cls
    if host in MANAGED:
        ns["__annotations__"] = {"p": int}
    if host in PREPARED:
        ns["_prepare_p"] = lambda self, v: _prep(v)
    cls = type("H", bases, ns)
    if host != "plain":
        cls = spec_class(bootstrap=bool(cfg.get("eager", True)))(cls)
    _CLS_CACHE[key] = cls
    return cls


def _is_int(v):
    return isinstance(v, int)  # annotation int (bool is an int)


def run_sp(ctx, case):
    cfg, ops = case["config"], case["ops"]
    cls = sp_host(cfg)
    obj = cls()
    host = cfg["host"]
    managed = host in MANAGED
    prep = _prep if host in PREPARED else (lambda v: v)
    base, slot = 1, None  # slot: None | ("override"|"cache", value)
    star = bool(cfg.get("star")) and host != "plain"
    after_change = nontrivial = False
    tagbase = f"sp:{host}"
    for i, op in enumerate(ops):
        name = op[0]
        if name == "read":
            # model
            exp_exc, exp = None, None
            if (cfg["overridable"] or cfg["cache"]) and slot is not None:
                exp = slot[1]
            elif cfg.get("no_getter"):
                exp_exc = AttributeError
            else:
                v = base * 10 if isinstance(base, int) else base
                if managed:
                    v = prep(v)
                    if not _is_int(v):
                        exp_exc = ValueError
                if exp_exc is None:
                    exp = v
                    if cfg["cache"]:
                        slot = ("cache", v)
            try:
                got = obj.p
            except CLEAN as e:
                if exp_exc is None or not isinstance(e, exp_exc):
                    ctx.fail(f"{tagbase}:read:unexpected_raise:{type(e).__name__}", case, f"step {i} read raised {e!r}; model expected {exp!r}")
                    return
            else:
                if exp_exc is not None:
                    ctx.fail(f"{tagbase}:read:missing_raise", case, f"step {i} read returned {got!r}; model expected {exp_exc.__name__} (ill-typed getter result)")
                    return
                if got != exp or type(got) is not type(exp):
                    ctx.fail(f"{tagbase}:read:value", case, f"step {i} read returned {got!r}; model expected {exp!r} (base={base!r}, slot={slot!r})")
                    return
            if after_change:
                nontrivial = True
        elif name == "assign":
            v = op[1]
            exp_exc = None
            if managed:
                pv = prep(v)
                if not _is_int(pv):
                    exp_exc = (TypeError, AttributeError)
            else:
                pv = v
            if exp_exc is None:
                if cfg["setter"]:
                    new_base, new_slot = pv, (None if star else slot)
                elif cfg["overridable"]:
                    new_base, new_slot = base, ("override", pv)
                else:
                    exp_exc = (AttributeError,)
            try:
                obj.p = v
            except CLEAN as e:
                if exp_exc is None or not isinstance(e, exp_exc):
                    ctx.fail(f"{tagbase}:assign:unexpected_raise:{type(e).__name__}", case, f"step {i} assign {v!r} raised {e!r}")
                    return
            else:
                if exp_exc is not None:
                    ctx.fail(f"{tagbase}:assign:missing_raise", case, f"step {i} assign {v!r} succeeded; expected {exp_exc}")
                    return
                base, slot = new_base, new_slot
                if cfg["setter"]:
                    after_change = True
        elif name == "delete":
            exp_exc = None
            if cfg["deleter"]:
                new_base, new_slot = 0, (None if star else slot)
            elif (cfg["overridable"] or cfg["cache"]) and slot is not None:
                new_base, new_slot = base, None
            else:
                exp_exc = AttributeError
            try:
                del obj.p
            except CLEAN as e:
                if exp_exc is None or not isinstance(e, exp_exc):
                    ctx.fail(f"{tagbase}:delete:unexpected_raise:{type(e).__name__}", case, f"step {i} delete raised {e!r} (slot={slot!r})")
                    return
            else:
                if exp_exc is not None:
                    ctx.fail(f"{tagbase}:delete:missing_raise", case, f"step {i} delete succeeded with nothing to delete")
                    return
                base, slot = new_base, new_slot
                if cfg["deleter"]:
                    after_change = True
        elif name == "state":
            obj.base = op[1]
            base = op[1]
            if star:
                slot = None
            after_change = True
        else:
            raise AssertionError(op)
        # the underlying state is public: it must agree after every step
        if obj.base != base:
            ctx.fail(f"{tagbase}:{name}:underlying_state", case, f"step {i} {op}: underlying state is {obj.base!r}, model {base!r}")
            return
        ctx.count(f"sp:{name}")
    ctx.case(case, len(ops) >= 3 and nontrivial)


# ---------------------------------------------------------------------------
# classproperty

CHAIN = ["A", "B", "C"]
LETTERS_CP = (
    [["cread", c] for c in CHAIN] + [["iread", c] for c in CHAIN] + [["assign", c, 5] for c in CHAIN] + [["assign", "B", None]]
    + [["delete", c] for c in CHAIN] + [["state", "A", 2], ["state", "B", 3], ["state", "C", 4]]
)


def cp_classes(cfg):
    from spec_classes.types import classproperty

    def fget(cls):
        b = cls.base
        return b * 10 if isinstance(b, int) else b

    def fset(cls, v):
        cls.base = v

    def fdel(cls):
        cls.base = 0

    if cfg.get("form") == "decorator":
        prop = classproperty(fget, overridable=cfg["overridable"], cache=cfg["cache"], cache_per_subclass=cfg["per_subclass"])
        if cfg["setter"]:
            prop = prop.setter(fset)
        if cfg["deleter"]:
            prop = prop.deleter(fdel)
        prop = prop.getter(fget)
    else:
        prop = classproperty(fget, fset if cfg["setter"] else None, fdel if cfg["deleter"] else None,
                             overridable=cfg["overridable"], cache=cfg["cache"], cache_per_subclass=cfg["per_subclass"])
    A = type("A", (), {"base": 1, "p": prop})
    B = type("B", (A,), {})
    C = type("C", (B,), {})
    return {"A": A, "B": B, "C": C}


def run_cp(ctx, case):
    cfg, ops = case["config"], case["ops"]
    classes = cp_classes(cfg)
    insts = {n: c() for n, c in classes.items()}
    own = {"A": 1}  # class-level `base` values defined on each class itself

    def base_of(n):
        for c in CHAIN[: CHAIN.index(n) + 1][::-1]:
            if c in own:
                return own[c]
        raise AssertionError

    cache = {}
    key = (lambda n: n) if cfg["per_subclass"] else (lambda n: None)
    tagbase = "cp"
    after_change = nontrivial = False
    for i, op in enumerate(ops):
        name, n = op[0], op[1]
        if name in ("cread", "iread"):
            k = key(n)
            if k in cache:
                exp = cache[k]
            else:
                exp = base_of(n)
                exp = exp * 10 if isinstance(exp, int) else exp
                if cfg["cache"]:
                    cache[k] = exp
            try:
                got = classes[n].p if name == "cread" else insts[n].p
            except CLEAN as e:
                ctx.fail(f"{tagbase}:{name}:unexpected_raise:{type(e).__name__}", case, f"step {i} {op} raised {e!r}")
                return
            if got != exp:
                ctx.fail(f"{tagbase}:{name}:value", case, f"step {i} {op} returned {got!r}; model {exp!r} (cache={cache!r}, own={own!r})")
                return
            if after_change:
                nontrivial = True
        elif name == "assign":
            v = op[2]
            exp_exc = None
            if cfg["setter"]:
                pass
            elif not cfg["overridable"]:
                exp_exc = AttributeError
            try:
                insts[n].p = v
            except CLEAN as e:
                if exp_exc is None or not isinstance(e, exp_exc):
                    ctx.fail(f"{tagbase}:assign:unexpected_raise:{type(e).__name__}", case, f"step {i} {op} raised {e!r}")
                    return
            else:
                if exp_exc is not None:
                    ctx.fail(f"{tagbase}:assign:missing_raise", case, f"step {i} {op} succeeded; expected AttributeError")
                    return
                if cfg["setter"]:
                    own[n] = v
                    after_change = True
                else:
                    cache[key(n)] = v
        elif name == "delete":
            exp_exc = None
            if cfg["deleter"]:
                pass
            elif key(n) not in cache:
                exp_exc = AttributeError
            try:
                del insts[n].p
            except CLEAN as e:
                if exp_exc is None or not isinstance(e, exp_exc):
                    ctx.fail(f"{tagbase}:delete:unexpected_raise:{type(e).__name__}", case, f"step {i} {op} raised {e!r} (cache={cache!r})")
                    return
            else:
                if exp_exc is not None:
                    ctx.fail(f"{tagbase}:delete:missing_raise", case, f"step {i} {op} succeeded with nothing to delete")
                    return
                if cfg["deleter"]:
                    own[n] = 0
                    after_change = True
                else:
                    del cache[key(n)]
        elif name == "state":
            classes[n].base = op[2]
            own[n] = op[2]
            after_change = True
        else:
            raise AssertionError(op)
        for c in CHAIN:
            if classes[c].base != base_of(c):
                ctx.fail(f"{tagbase}:{name}:underlying_state", case, f"step {i} {op}: {c}.base is {classes[c].base!r}, model {base_of(c)!r}")
                return
        ctx.count(f"cp:{name}")
    ctx.case(case, len(ops) >= 3 and nontrivial)


def run_case(ctx, case):
    if case["kind"] == "sp":
        run_sp(ctx, case)
    else:
        run_cp(ctx, case)


# ---------------------------------------------------------------------------

BOUNDS = {
    "quick": dict(sp_len=5, cp_len=4, examples=300, hyp_units=16),
    "thorough": dict(sp_len=6, cp_len=5, examples=6000, hyp_units=16),
}


def sp_configs():
    for host in HOSTS:
        for o, c, s, d in itertools.product([False, True], repeat=4):
            yield {"host": host, "overridable": o, "cache": c, "setter": s, "deleter": d}
    for host in ("plain", "spec_managed"):
        for o, c, s, d in itertools.product([False, True], repeat=4):
            yield {"host": host, "overridable": o, "cache": c, "setter": s, "deleter": d, "form": "decorator"}
    for host in ("plain", "spec_unmanaged", "spec_managed"):
        yield {"host": host, "overridable": True, "cache": False, "setter": False, "deleter": False, "no_getter": True}
    for host in ("spec_unmanaged", "spec_managed"):
        # (no custom deleter here: invalidation deletes the property, and a deleter that itself mutates state would be
        # invalidated by its own effect - unbounded recursion by construction of the example, not a protocol question)
        for o, c, s in itertools.product([False, True], repeat=3):
            yield {"host": host, "overridable": o, "cache": c, "setter": s, "deleter": False, "star": True}


def cp_configs():
    for o, c, p, s, d in itertools.product([False, True], repeat=5):
        yield {"overridable": o, "cache": c, "per_subclass": p, "setter": s, "deleter": d}
    for o, c, p, s, d in itertools.product([False, True], repeat=5):
        if s or d:
            yield {"overridable": o, "cache": c, "per_subclass": p, "setter": s, "deleter": d, "form": "decorator"}


def units(tier, seed):
    out = [["sp", i] for i in range(len(list(sp_configs())))]
    out += [["cp", i] for i in range(len(list(cp_configs())))]
    out += [["hyp", i] for i in range(BOUNDS[tier]["hyp_units"])]
    return out


@st.composite
def case_strategy(draw):
    if draw(st.booleans()):
        cfg = draw(st.sampled_from(list(sp_configs())))
        cfg = dict(cfg, eager=draw(st.booleans()))
        ops = draw(st.lists(st.sampled_from(LETTERS_SP), min_size=1, max_size=40))
        return {"kind": "sp", "config": cfg, "ops": ops}
    cfg = draw(st.sampled_from(list(cp_configs())))
    ops = draw(st.lists(st.sampled_from(LETTERS_CP), min_size=1, max_size=40))
    return {"kind": "cp", "config": cfg, "ops": ops}


def run_unit(ctx, unit):
    b = BOUNDS[ctx.tier]
    kind = unit[0]
    if kind == "sp":
        cfg = list(sp_configs())[unit[1]]
        # the variant families (decorator-built, invalidated_by="*", getter-less, inherited / subclass-prepared hosts) repeat the
        # protocol of the basic ones: one letter shorter keeps the enumeration of the basic family the dominant cost
        secondary = any(k in cfg for k in ("form", "star", "no_getter")) or cfg["host"] in ("inh_managed_prep", "mixin_managed", "plain_sub_prep_only", "spec_sub_prep_only")
        for n in range(1, b["sp_len"] + (0 if secondary else 1)):
            for seq in itertools.product(LETTERS_SP, repeat=n):
                run_sp(ctx, {"kind": "sp", "config": cfg, "ops": list(seq)})
        ctx.count("sp_configs_exhausted")
    elif kind == "cp":
        cfg = list(cp_configs())[unit[1]]
        for n in range(1, b["cp_len"] + (0 if "form" in cfg else 1)):
            for seq in itertools.product(LETTERS_CP, repeat=n):
                run_cp(ctx, {"kind": "cp", "config": cfg, "ops": list(seq)})
        ctx.count("cp_configs_exhausted")
    elif kind == "hyp":
        run_given(ctx, lambda case: run_case(ctx, case), {"case": case_strategy()}, b["examples"], ctx.seed * 1000 + unit[1])
    else:
        raise AssertionError(unit)


def coverage_extra(tier, counters):
    b = BOUNDS[tier]
    return {
        "exhaustive": True,
        "exhaustive_scope": f"spec_property: 64 configurations x all sequences of length <= {b['sp_len']} over {len(LETTERS_SP)} letters; "
        f"classproperty: 32 configurations x all sequences of length <= {b['cp_len']} over {len(LETTERS_CP)} letters",
    }


def replay(ctx, case):
    run_case(ctx, case)
