"""
C04 - an operation that raises leaves every pre-existing object unchanged.

Oracle: snapshots of the receiver, every argument object, every other live instance and the
class-level defaults taken before the probe must be unchanged whenever the probe raises:
because of an ill-typed value at some argument position, a missing index/key/element, a
duplicate key, an unknown keyword, or because a user callback raised at its k-th invocation.
"""
from __future__ import annotations

from vf import grammar, ops
from vf.probe import run_probe_case
from vf.props.common import world_history
from vf.runner import run_given

ID = "C04"
LEVEL = "fault_enumeration"
RULE = (
    "cases = (generated class world, history of <= 8 API ops, probe = any operation: constructor, assignment, deletion, every helper with "
    "or without _inplace, multi-keyword update/transform, element helpers on plain and keyed containers, nested in-place edits), with ~45% "
    "ill-typed / missing-target / unknown-keyword arguments. After the natural run every (user callback, invocation number) the probe performed is "
    "enumerated as a fault point on a replica rebuilt by replaying the history. Non-trivial = the probe raised after library code had already run "
    "(line counter > 3) or a callback fault fired; distinct = canonical JSON of (world, history, probe)."
)
ASSUMPTIONS = [
    "faults are exceptions raised by user callbacks (transform, attribute transform, preparer, item preparer, __post_copy__) and bad arguments; "
    "exceptions injected at arbitrary library lines are C01's business",
    "a callback invocation that is skipped on the replica (because an earlier fault changed control flow) is not a fault point",
]


def _probe(src, info):
    if src.chance(1, 8):
        return ops.gen_new(src, info, bad_rate=(1, 3))
    nodefault = [n for n, a in info.attrs().items() if a["default"][0] in ("none", "attr_none")]
    if nodefault and src.chance(1, 8):
        # deleting / resetting an attribute that may currently hold nothing (fails when it does)
        a = src.pick(nodefault)
        return {"t": "del", "attr": a} if src.chance(1, 2) else {"t": "call", "m": f"reset_{a}", "a": [], "k": {"_inplace": True}}
    keyed = [n for n, a in info.attrs().items() if a["type"][0] in ("keyedlist", "keyedset") or (a["type"][0] in ("list", "dict") and a["type"][-1] == ["spec", "N"])]
    if keyed and src.chance(1, 10):
        # an element that is ALREADY in the container (same key) goes to another position / key: a duplicate-key refusal
        # after the addressed slot has been looked at - the classic place for half-done index bookkeeping
        a = src.pick(keyed)
        s = grammar.SINGULAR[a]
        k = {"_inplace": src.chance(2, 3)}
        if info.attrs()[a]["type"][0] == "keyedlist" and src.chance(1, 3):
            # a NEW element, positioned by the KEY of an element that is there: fine as a replacement, refused as an insertion
            # (a key is no position to insert before) - after the new element's key has been looked at
            k.update(_index=["$key", a, src.choice(3)], _insert=src.chance(3, 4))
            return {"t": "call", "m": f"with_{s}", "a": [["spec", "N", {"k": src.pick(["zz", "c", "new"]), "v": 1}]], "k": k}
        if info.attrs()[a]["type"][0] == "dict":
            return {"t": "call", "m": f"with_{s}", "a": [src.pick(grammar.KEYS), ["$item", a, src.choice(3)]], "k": k}
        if src.chance(2, 3):
            k["_index"] = src.pick([0, 1, -1, 2])
            if src.chance(1, 3):
                k["_insert"] = True
        return {"t": "call", "m": f"with_{s}", "a": [["$item", a, src.choice(3)]], "k": k}
    prepared_specs = [n for n, a in info.attrs().items() if a["type"][0] == "spec" and a["type"][1] in ("U", "N") and info.prepare_kind(n)]
    if prepared_specs and src.chance(1, 6):
        # keyword update of a nested value whose attribute has a preparer (a user callback that may fail AFTER the keywords have
        # been merged): in place or by copy, the object the instance held before is not the one that gets edited
        n = src.pick(prepared_specs)
        kw = {"a": src.pick([7, -3])} if info.attrs()[n]["type"][1] == "U" else {"v": src.pick([7, -3])}
        return {"t": "call", "m": f"update_{n}", "a": [], "k": dict(kw, _inplace=src.chance(2, 3))}
    invalidators = sorted({i for a in info.attrs().values() for i in (a.get("invalidated_by") or ()) if i in info.attrs()})
    if invalidators and src.chance(1, 10):
        # the attribute is assigned the very object it already holds: nothing changes - unless restoring one of its dependants
        # fails, in which case the dependants restored before it must come back, too
        a = src.pick(invalidators)
        return {"t": "set", "attr": a, "v": ["$same", a]} if src.chance(1, 2) else {"t": "call", "m": f"with_{a}", "a": [["$same", a]], "k": {"_inplace": True}}
    lookups = [(n, item) for item in (False, True) for n in info.attrs() if info.prepare_kind(n, item=item) == "lookup"]
    if lookups and src.chance(1, 3):
        # a shorthand that the preparer resolves to an object the instance already holds, together with nested keywords the
        # LAST of which is refused: the earlier ones must not have reached the resolved (pre-existing) object
        n, item = src.pick(lookups)
        T = info.attrs()[n]["type"]
        cname = grammar.elem_type(T)[1] if item else T[1]
        first, second = ("a", "b") if cname == "U" else ("v", "notes")
        kw = {first: src.pick([7, -3, 0]), second: src.pick([5, None, ["list", [1]]]), "_inplace": src.chance(1, 2)}
        if item:
            args = [src.pick(grammar.KEYS), "shorthand"] if T[0] == "dict" else ["shorthand"]
            return {"t": "call", "m": f"with_{grammar.SINGULAR[n]}", "a": args, "k": kw, "bad": "elem"}
        return {"t": "call", "m": f"with_{n}", "a": ["shorthand"], "k": kw, "bad": "top"}
    return ops.gen_op(src, info, inplace=None, bad_rate=(45, 100), allow=("scalar", "element", "top", "nested"))


def run_case(ctx, case):
    run_probe_case(ctx, case, "c04")


BOUNDS = {"quick": dict(examples=500, units=16), "thorough": dict(examples=6000, units=16)}
PROFILE = dict(grammar.PROFILES["data"], post_copy=True, class_dnc=True, lookup_preparers=True)


def units(tier, seed):
    return [["hyp", i] for i in range(BOUNDS[tier]["units"])]


def run_unit(ctx, unit):
    b = BOUNDS[ctx.tier]
    run_given(ctx, lambda case: run_case(ctx, case), {"case": world_history(PROFILE, max_ops=8, probe=_probe, bad_rate=(1, 8))}, b["examples"], ctx.seed * 1000 + unit[1])


def replay(ctx, case):
    run_case(ctx, case)
