"""
Fault injection.

* callback faults: generated user callbacks consult world.faults[(kind, name)] (a set of
  1-based invocation numbers) through World.tick and raise Injected.
* line faults: a trace function counts `line` events executed in library code (files under the
  spec_classes package directory and the "<string>" pseudo-file of generated wrappers) and raises
  Injected at the n-th.
"""
from __future__ import annotations

import os
import sys

from vf.grammar import Injected


def library_prefix():
    import spec_classes

    return os.path.dirname(os.path.abspath(spec_classes.__file__)) + os.sep


class LineTracer:
    """Context manager. target=None only counts; otherwise raises Injected at the target-th line event."""

    def __init__(self, target=None, files=None):
        self.target = target
        self.count = 0
        self.prefix = library_prefix()
        self.files = files  # optional tuple of basenames to restrict to
        self.where = None

    def _global(self, frame, event, arg):
        fn = frame.f_code.co_filename
        if fn.startswith(self.prefix):
            if self.files and not fn.endswith(self.files):
                return None
            return self._local
        if fn == "<string>":
            return self._local
        return None

    def _local(self, frame, event, arg):
        if event == "line":
            self.count += 1
            if self.count == self.target:
                self.where = f"{os.path.basename(frame.f_code.co_filename)}:{frame.f_lineno}:{frame.f_code.co_name}"
                raise Injected(f"line fault #{self.count} at {self.where}")
        return self._local

    def __enter__(self):
        self._old = sys.gettrace()
        sys.settrace(self._global)
        return self

    def __exit__(self, *exc):
        sys.settrace(self._old)
        return False


def callback_points(calls_before, calls_after):
    """(key, n) for every callback invocation that happened between two snapshots of world.calls;
    n is relative to the snapshot (1-based)."""
    out = []
    for key, after in calls_after.items():
        before = calls_before.get(key, 0)
        for n in range(1, after - before + 1):
            out.append((key, n))
    return out
