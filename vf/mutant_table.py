"""Render the 'own mutants' table of DESIGN.md section 10 from a self-test log.
usage: python vf/selftest.py --all > /tmp/selftest.jsonl; python vf/mutant_table.py /tmp/selftest.jsonl"""
import collections
import json
import os
import sys


def main():
    rows = collections.defaultdict(list)
    seeded = collections.Counter()
    bad = []
    last = {}
    for path in sys.argv[1:]:
        for line in open(path):
            line = line.strip()
            if not line.startswith("{"):
                continue
            try:
                r = json.loads(line)
            except ValueError:
                continue
            r["patch"] = os.path.join("/verif", r["patch"]) if not r["patch"].startswith("/") else r["patch"]
            last[(r["prop"], r["patch"])] = r  # (a later log line about the same patch - a re-run after strengthening - wins)
    for r in last.values():
        name = os.path.basename(r["patch"])
        if "/seeded/" in r["patch"]:
            seeded[r["status"]] += 1
            if r["status"] not in ("killed", "MISSED-known"):
                bad.append((r["prop"], r["patch"], r["status"]))
            continue
        rows[r["prop"]].append((name[:-6], r["status"], r.get("wall")))
        if r["status"] != "killed":
            bad.append((r["prop"], r["patch"], r["status"]))
    print("| check | mutants (all killed by the quick tier unless marked) |")
    print("|---|---|")
    for prop in sorted(rows):
        cells = [f"{n}{'' if s == 'killed' else ' **' + s + '**'}" for n, s, _ in sorted(rows[prop])]
        print(f"| {prop} | {', '.join(cells)} |")
    print()
    print(f"own mutants: {sum(len(v) for v in rows.values())}; seeded: {dict(seeded)}")
    for b in bad:
        print("NOT KILLED:", b)


if __name__ == "__main__":
    main()
