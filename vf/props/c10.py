"""
C10 - equality, copying and repr are coherent and total.

Oracles over pools of instances of one generated class (and of a class and its subclasses):
 * == is reflexive, symmetric, transitive; != is its negation;
 * for two instances of the same class, == holds iff an attribute-wise reference comparison over the
   compare-enabled attributes does (missing equals only missing; bound methods by wrapped function);
 * deepcopy(x) == x; rebuilding an instance from its own attribute values gives an equal instance;
 * repr never raises (also with missing values and self-referential structures) and lists exactly the
   repr-enabled attributes in declaration order.
"""
from __future__ import annotations

import copy
import itertools
import types

from hypothesis import strategies as st

from vf import grammar, ops
from vf.runner import run_given

ID = "C10"
LEVEL = "exploration"
RULE = (
    "cases = (generated class world incl. compare=False / repr=False attributes and an Any-typed attribute holding functions, classes, modules, "
    "the instance's own bound methods (also under another attribute name) and bound methods of other objects; a pool of <= 6 instances built by "
    "short histories, plus for each attribute position a pair differing in exactly that attribute, plus self-referential variants for repr). All pairs "
    "and triples are checked. Non-trivial = the pool has a pair differing in exactly one attribute that is not the first, or a callable/method-valued "
    "attribute, or a cyclic structure; distinct = canonical JSON of the case."
)
ASSUMPTIONS = [
    "for operands of different classes only symmetry / transitivity / consistency of == are asserted ('compatible' is not defined precisely enough to predict the value)",
    "preparers are idempotent in this profile (rebuilding from own values re-runs them)",
    "self-referential structures are only used for repr (the statement names them there); == and deepcopy laws are asserted on acyclic pools",
    "rebuilding from own attribute values is asserted when every stored attribute is init-enabled",
]

SPECIALS = [["$obj", "func"], ["$obj", "func2"], ["$obj", "class"], ["$obj", "class2"], ["$obj", "speccls"], ["$obj", "speccls2"], ["$obj", "module"], ["$selfmethod", "helper"], ["$selfmethod", "helper2"],
            ["$othermethod", "helper"], 0, "a"]
PROFILE = dict(grammar.PROFILES["data_plain"], preparers=False, invalidation=False, max_attrs=6)


@st.composite
def case_strategy(draw):
    src = grammar.HypSource(draw)
    wd = grammar.gen_world(src, PROFILE)
    # an Any-typed attribute that can hold callables; placed first, in the middle or last
    m = next(c for c in wd["classes"] if c["name"] == "M")
    cb = {"name": "cb", "type": ["any"], "default": ["lit", None]}
    cb2 = {"name": "cb2", "type": ["any"], "default": ["lit", None]}
    pos = src.choice(len(m["attrs"]) + 1)
    m["attrs"].insert(pos, cb)
    if src.chance(1, 2):
        m["attrs"].insert(src.choice(len(m["attrs"]) + 1), cb2)
    m["helper_method"] = True
    keyable = [a["name"] for i, a in enumerate(m["attrs"]) if i > 0 and a["type"] == ["str"] and a["default"][0] in ("lit", "attr_default") and a.get("init") is not False
               and a["name"] not in (m.get("prepare") or {})]
    if keyable and src.chance(1, 3) and not any(c["bases"] == ["M"] and c.get("redefaults") for c in wd["classes"]):
        # the class is keyed by an attribute that is NOT declared first: repr, metadata and comparison keep declaration order
        m["opts"]["key"] = src.pick(keyable)
    info = grammar.world_info(wd)
    n = 2 + src.choice(5)
    pool = []
    for _ in range(n):
        hist = [ops.gen_new(src, info)]
        for _ in range(src.choice(4)):
            hist.append(ops.gen_op(src, info, inplace=True, bad_rate=(1, 12), allow=("scalar", "element", "top")))
        special = {}
        for name in ("cb", "cb2"):
            if name in info.attrs() and src.chance(2, 3):
                special[name] = src.pick(SPECIALS)
        pool.append({"hist": hist, "special": special, "cls": src.pick(["inst", "inst", "M"]), "strip_key": src.chance(1, 6)})
    return {"world": wd, "pool": pool, "cyclic": src.pick(["self", "list", "dict", "two", "none", "keyedset", "keyedlist", "nan"])}


def build_instance(world, spec, others):
    cname = world.desc["instance_class"] if spec["cls"] == "inst" else "M"
    try:
        cur = ops.construct(world, spec["hist"][0], cname=cname)
    except ops.CLEAN:
        return None
    for op in spec["hist"][1:]:
        ops.execute(world, cur, op)
    if spec.get("strip_key"):
        # a keyed child whose key is (again) missing: legal, and repr / == of the parent must cope
        for name, a in world.attrs(cname).items():
            if a["type"] == ["spec", "N"] and world.declared_default("k", "N")[0] in ("none", "attr_none"):
                child = object.__getattribute__(cur, "__dict__").get(name)
                if child is not None:
                    try:
                        # (on a private copy: a transform may have put the very same object into a keyed container,
                        # which cannot know that one of its elements lost its key)
                        child = copy.deepcopy(child)
                        setattr(cur, name, child)
                        del child.k
                    except ops.CLEAN:
                        pass
    for name, v in spec["special"].items():
        if isinstance(v, list) and v[0] == "$selfmethod":
            val = getattr(cur, v[1])
        elif isinstance(v, list) and v[0] == "$othermethod":
            val = getattr(others[0], v[1]) if others else getattr(cur, v[1])
        else:
            val = world.realize(v)
        try:
            setattr(cur, name, val)
        except ops.CLEAN:
            pass
    return cur


def stored(obj, name):
    """Value of a managed attribute as Python would find it without __getattr__: instance dict, then class attributes."""
    from spec_classes.types import MISSING

    d = object.__getattribute__(obj, "__dict__")
    if name in d:
        return d[name]
    for klass in type(obj).__mro__:
        if name in vars(klass):
            v = vars(klass)[name]
            if v is MISSING:
                return MISSING
            return v
    return MISSING


def ref_attr_eq(va, vb):
    from spec_classes.types import MISSING

    if va is MISSING or vb is MISSING:
        return va is MISSING and vb is MISSING
    if isinstance(va, types.MethodType) and isinstance(vb, types.MethodType):
        return va.__func__ is vb.__func__
    # containers and nested spec instances are compared structurally (not through the library's own __eq__ of keyed containers /
    # generated __eq__, which are what is being checked): element by element, attribute by attribute
    w = _CUR.get("world")
    if w is not None and _depth[0] < 6:
        _depth[0] += 1
        try:
            ka, kb = hasattr(va, "_dict") and hasattr(va, "_key"), hasattr(vb, "_dict") and hasattr(vb, "_key")
            if ka or kb:
                if not (ka and kb) or type(va) is not type(vb):
                    return bool(va == vb)
                if hasattr(va, "_list"):
                    return len(va._list) == len(vb._list) and all(ref_attr_eq(x, y) for x, y in zip(va._list, vb._list))
                return set(va._dict) == set(vb._dict) and all(ref_attr_eq(va._dict[k], vb._dict[k]) for k in va._dict)
            if hasattr(va, "__spec_class__") and not isinstance(va, type) and type(va) is type(vb) and type(va).__name__ in w.all_attrs and not _cyclic(va):
                return ref_eq(w, va, vb)[0]
            if type(va) is type(vb) and isinstance(va, (list, tuple)) and not _cyclic(va):
                return len(va) == len(vb) and all(ref_attr_eq(x, y) for x, y in zip(va, vb))
            if type(va) is type(vb) and isinstance(va, dict) and not _cyclic(va):
                return set(va) == set(vb) and all(ref_attr_eq(va[k], vb[k]) for k in va)
        finally:
            _depth[0] -= 1
    return bool(va == vb)


_CUR = {}
_depth = [0]


def _cyclic(v, seen=None, d=0):
    """Whether a value reaches itself (structural comparison would not terminate: leave those to ==)."""
    seen = seen or set()
    if id(v) in seen:
        return True
    if d > 8 or isinstance(v, (int, float, str, bytes, bool, type(None), type)):
        return False
    seen = seen | {id(v)}
    if isinstance(v, dict):
        return any(_cyclic(x, seen, d + 1) for x in v.values())
    if isinstance(v, (list, tuple, set, frozenset)):
        return any(_cyclic(x, seen, d + 1) for x in v)
    if hasattr(v, "_dict") and hasattr(v, "_key"):
        return any(_cyclic(x, seen, d + 1) for x in v._dict.values())
    if hasattr(v, "__spec_class__") and not isinstance(v, type):
        return any(_cyclic(x, seen, d + 1) for x in object.__getattribute__(v, "__dict__").values())
    return False


def ref_eq(world, a, b):
    for name, desc in world.attrs(type(a).__name__).items():
        if desc.get("compare") is False:
            continue
        if not ref_attr_eq(stored(a, name), stored(b, name)):
            return False, name
    return True, None


def top_level_names(text):
    """Names of the top-level `name=` entries of a repr like Cls(a=..., b=[...]) (also multi-line)."""
    start = text.index("(")
    depth, i, n = 0, start, len(text)
    names = []
    expect_name = False
    quote = None
    while i < n:
        ch = text[i]
        if quote:
            if ch == "\\":
                i += 2
                continue
            if ch == quote:
                quote = None
        elif ch in "'\"":
            quote = ch
        elif ch in "([{":
            depth += 1
            if depth == 1:
                expect_name = True
        elif ch in ")]}":
            depth -= 1
            if depth == 0:
                break
        elif ch == "," and depth == 1:
            expect_name = True
        elif depth == 1 and expect_name and (ch.isalpha() or ch == "_"):
            j = i
            while j < n and (text[j].isalnum() or text[j] == "_"):
                j += 1
            if j < n and text[j] == "=":
                names.append(text[i:j])
            expect_name = False
            i = j
            continue
        elif depth == 1 and expect_name and not ch.isspace():
            expect_name = False
        i += 1
    return names


def run_case(ctx, case):
    _CUR.clear()
    _depth[0] = 0
    world = grammar.build_world(case["world"])
    _CUR["world"] = world
    pool = []
    for spec in case["pool"]:
        inst = build_instance(world, spec, pool)
        if inst is not None:
            pool.append(inst)
    if not pool:
        ctx.case(case, False)
        return
    # cross-class twins: the same history replayed on the parent class M (equal on M's attributes)
    for spec in case["pool"][:2]:
        if spec["cls"] == "inst" and world.desc["instance_class"] != "M":
            inst = build_instance(world, dict(spec, cls="M"), pool)
            if inst is not None:
                pool.append(inst)
    attrs_by_class = {}
    nontrivial = False
    # one-attribute-different partners for the first instance, per attribute position
    base = pool[0]
    names = list(world.attrs(type(base).__name__))
    for pos, name in enumerate(names):
        try:
            twin = copy.deepcopy(base)
        except ops.CLEAN + (RecursionError,):
            break
        T = world.attrs(type(base).__name__)[name]["type"]
        cur = stored(base, name)
        for cand in _different_values(world, T, cur):
            try:
                setattr(twin, name, cand)
            except ops.CLEAN:
                continue
            if not ref_attr_eq(stored(twin, name), cur):
                pool.append(twin)
                if pos > 0 and world.attrs(type(base).__name__)[name].get("compare") is not False:
                    nontrivial = True
                break
        # ... and a partner whose container holds the same elements under the same keys / at the same positions, one of them
        # differing in ONE non-key attribute (what a key-only comparison of keyed containers would overlook)
        if T[0] in ("keyedset", "keyedlist", "list", "dict") and T[-1][0:1] == ["spec"] or T[0] in ("keyedset", "keyedlist"):
            try:
                twin2 = copy.deepcopy(base)
                coll = stored(twin2, name)
                items = list(coll.values()) if isinstance(coll, dict) else list(coll or [])
                if items and hasattr(items[0], "__spec_class__"):
                    first = items[0]
                    inner = "v" if "v" in type(first).__spec_class__.attrs else "a"
                    setattr(first, inner, (getattr(first, inner, 0) or 0) + 1)
                    if not ref_attr_eq(stored(twin2, name), cur):
                        pool.append(twin2)
            except ops.CLEAN + (RecursionError, AttributeError, TypeError):
                pass
    if any(isinstance(stored(x, n), (types.MethodType, types.FunctionType, type, types.ModuleType)) for x in pool for n in ("cb", "cb2") if n in world.attrs(type(x).__name__)):
        nontrivial = True

    def eq(a, b):
        try:
            return a == b
        except ops.CLEAN + (RecursionError,) as e:
            ctx.fail(f"eq|raises:{type(e).__name__}", case, f"== raised {e!r}")
            raise _Abort

    try:
        for a in pool:
            if eq(a, a) is not True:
                ctx.fail("eq|not_reflexive", case, f"{a!r} != itself")
                return
        table = {}
        for (i, a), (j, b) in itertools.combinations(enumerate(pool), 2):
            ab, ba = eq(a, b), eq(b, a)
            if ab != ba:
                ctx.fail("eq|not_symmetric", case, f"a == b is {ab} but b == a is {ba} for a={a!r}, b={b!r}")
                return
            if (a != b) == ab:
                ctx.fail("eq|ne_inconsistent", case, f"a != b is {a != b} while a == b is {ab}")
                return
            table[i, j] = table[j, i] = ab
            if type(a) is type(b):
                want, why = ref_eq(world, a, b)
                if bool(ab) != want:
                    kind = _kind(stored(a, why)) if why else "all-equal"
                    ctx.fail(f"eq|{'false_positive' if ab else 'false_negative'}:{kind}", case,
                             f"a == b is {ab}, attribute-wise comparison says {want}" + (f" (differ in {why!r}: {stored(a, why)!r} vs {stored(b, why)!r})" if why else "") + f"; a={a!r} b={b!r}")
                    return
        for i, j, k in itertools.permutations(range(len(pool)), 3):
            if i < j and table.get((i, j)) and table.get((j, k)) and not table.get((i, k), True if i == k else False):
                ctx.fail("eq|not_transitive", case, f"a==b and b==c but not a==c for indices {i},{j},{k}")
                return
        ctx.count("pairs", len(table) // 2)
        # copying
        for a in pool:
            try:
                c = copy.deepcopy(a)
            except ops.CLEAN + (RecursionError,) as e:
                ctx.fail(f"deepcopy|raises:{type(e).__name__}", case, f"deepcopy({a!r}) raised {e!r}")
                return
            if eq(c, a) is not True or eq(a, c) is not True:
                _, why = ref_eq(world, a, c)
                ctx.fail(f"deepcopy|not_equal:{_kind(stored(a, why)) if why else '?'}", case, f"deepcopy(x) != x for x={a!r} (copy={c!r}, differing attribute {why!r})")
                return
            # rebuilding from own attribute values
            d = object.__getattribute__(a, "__dict__")
            descs = world.attrs(type(a).__name__)
            if all(n in descs and descs[n].get("init") is not False for n in d):
                try:
                    r = type(a)(**{n: v for n, v in d.items()})
                except ops.CLEAN as e:
                    ctx.fail(f"rebuild|raises:{type(e).__name__}", case, f"{type(a).__name__}(**own attribute values) raised {e!r} for {a!r}")
                    return
                if eq(r, a) is not True:
                    _, why = ref_eq(world, a, r)
                    ctx.fail(f"rebuild|not_equal:{_kind(stored(a, why)) if why else '?'}", case, f"rebuilt instance {r!r} != original {a!r} (attribute {why!r})")
                    return
                ctx.count("rebuilt")
    except _Abort:
        return
    # repr
    reprs = list(pool)
    cyc = _make_cyclic(world, case["cyclic"], pool)
    if cyc:
        reprs += cyc
        nontrivial = True
    for a in reprs:
        want = [n for n, dsc in world.attrs(type(a).__name__).items() if dsc.get("repr") is not False]
        try:
            text = repr(a)
        except Exception as e:
            ctx.fail(f"repr|raises:{type(e).__name__}", case, f"repr raised {e!r} (cyclic={case['cyclic']})")
            return
        got = top_level_names(text)
        if got != want:
            ctx.fail("repr|attributes", case, f"repr lists {got}, expected the repr-enabled attributes in declaration order {want}: {text[:300]!r}")
            return
    ctx.count("reprs", len(reprs))
    # self-referential instances (and values that are not equal to themselves): equality stays reflexive, copying terminates
    # and reproduces the shape
    for a in cyc or []:
        try:
            same = a == a
        except Exception as e:
            ctx.fail(f"eq|cyclic_raises:{type(e).__name__}", case, f"x == x raised {e!r} for a self-referential x (cyclic={case['cyclic']})")
            return
        if same is not True:
            ctx.fail("eq|not_reflexive", case, f"x == x is {same!r} (cyclic={case['cyclic']})")
            return
        try:
            c = copy.deepcopy(a)
        except Exception as e:
            ctx.fail(f"deepcopy|cyclic_raises:{type(e).__name__}", case, f"deepcopy(x) raised {e!r} for a self-referential x (cyclic={case['cyclic']})")
            return
        if case["cyclic"] == "self" and not (c is not a and stored(c, "cb") is c):
            ctx.fail("deepcopy|cycle_not_reproduced", case, f"deepcopy of x with x.cb = x: copy.cb is {'x itself' if stored(c, 'cb') is a else 'a third object'}")
            return
        if case["cyclic"] == "list" and not (isinstance(stored(c, "cb"), list) and stored(c, "cb")[0] is c):
            ctx.fail("deepcopy|cycle_not_reproduced", case, "deepcopy of x with x.cb = [x, 1]: the copy's list does not hold the copy")
            return
        ctx.count("cyclic_copies")
    ctx.case(case, nontrivial)


class _Abort(Exception):
    pass


def _kind(v):
    if isinstance(v, types.MethodType):
        return "method"
    if isinstance(v, (types.FunctionType, type, types.ModuleType)):
        return "callable"
    return type(v).__name__


def _different_values(world, T, cur):
    src = grammar.ListSource([3, 1, 4, 1, 5, 9, 2, 6])
    out = []
    for _ in range(6):
        try:
            out.append(world.realize(grammar.gen_value(src, T, True)))
        except ops.CLEAN:
            pass
    return out


def _make_cyclic(world, mode, pool):
    if mode == "none" or "cb" not in world.attrs(type(pool[0]).__name__):
        return []
    try:
        a = copy.deepcopy(pool[0])
        b = copy.deepcopy(pool[-1])
        if mode == "self":
            a.cb = a
            return [a]
        if mode == "list":
            a.cb = [a, 1]
            return [a]
        if mode == "dict":
            a.cb = {"me": a}
            return [a]
        if mode in ("keyedset", "keyedlist"):
            from spec_classes.types import KeyedList, KeyedSet

            a.cb = (KeyedSet if mode == "keyedset" else KeyedList)([a], key=id)
            return [a]
        if mode == "nan":
            a.cb = float("nan")  # not a cycle: a value that is not equal to itself
            return [a]
        if "cb" in world.attrs(type(b).__name__):
            a.cb = b
            b.cb = a
            return [a, b]
    except ops.CLEAN:
        pass
    return []


BOUNDS = {"quick": dict(examples=300, units=16), "thorough": dict(examples=3000, units=16)}


def units(tier, seed):
    return [["hyp", i] for i in range(BOUNDS[tier]["units"])]


def run_unit(ctx, unit):
    b = BOUNDS[ctx.tier]
    run_given(ctx, lambda case: run_case(ctx, case), {"case": case_strategy()}, b["examples"], ctx.seed * 1000 + unit[1])


def replay(ctx, case):
    run_case(ctx, case)
