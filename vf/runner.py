"""
Shared run machinery: seeding, sharding over processes, statistics, known
findings, replay files, evidence, exit codes.

Contract (see DESIGN.md section 2.3):
  exit 0  property held on everything explored (KNOWN-FINDING lines allowed)
  exit 1  "VIOLATION property=<id> replay=<path>" printed for every new bucket
  exit 2  harness error (never a violation)
"""

from __future__ import annotations

import hashlib
import json
import multiprocessing
import os
import sys
import time
import traceback
from collections import Counter
from fnmatch import fnmatchcase

HERE = os.path.dirname(os.path.dirname(os.path.abspath(__file__)))
# Where evidence and new replay files are written (selftest points this elsewhere
# so that runs against scratch mutants do not touch the committed tree).
OUT = os.path.abspath(os.environ.get("VF_OUT") or HERE)
NPROC = int(os.environ.get("VF_PROCS", "16"))


class Violation(Exception):
    """Raised by an oracle: the property does not hold on `case`."""

    def __init__(self, bucket, case, message=""):
        super().__init__(f"[{bucket}] {message}")
        self.bucket = bucket
        self.case = case
        self.message = message

    def as_dict(self):
        return {"bucket": self.bucket, "case": self.case, "message": self.message}


class HarnessError(Exception):
    pass


CASE_WATCHDOG_S = 300


def canon(obj):
    return json.dumps(obj, sort_keys=True, default=repr, separators=(",", ":"))


def chash(obj):
    return int.from_bytes(hashlib.blake2b(canon(obj).encode(), digest_size=8).digest(), "big")


class Ctx:
    """Per-work-unit statistics + known-finding exclusions."""

    MAX_SAMPLES = 4

    def __init__(self, prop_id, tier, seed, known_buckets=()):
        self.prop_id = prop_id
        self.tier = tier
        self.seed = seed
        self.known_buckets = list(known_buckets)
        self.evaluations = 0
        self.nontrivial = set()
        self.counters = Counter()
        self.excluded = Counter()
        self.samples = []
        self.failures = []
        self.recording = True
        self.truncated = False

    # statistics ---------------------------------------------------------
    def case(self, case, nontrivial, key=None):
        """Record one executed case. `key` (default: the case) is what makes
        it distinct."""
        if not self.recording:
            return
        self.evaluations += 1
        if nontrivial:
            h = chash(case if key is None else key)
            if h not in self.nontrivial:
                self.nontrivial.add(h)
                if len(self.samples) < self.MAX_SAMPLES:
                    self.samples.append(case)

    def count(self, name, n=1):
        if self.recording:
            self.counters[name] += n

    # failures -----------------------------------------------------------
    def is_known(self, bucket):
        return any(fnmatchcase(bucket, pat) for pat in self.known_buckets)

    def fail(self, bucket, case, message=""):
        """Report an oracle failure. Returns (without raising) when the bucket
        is an active known finding; the caller must then abandon the case."""
        if self.is_known(bucket):
            if self.recording:
                self.excluded[bucket] += 1
            return
        raise Violation(bucket, case, message)

    def result(self):
        return {
            "evaluations": self.evaluations,
            "nontrivial": list(self.nontrivial),
            "counters": dict(self.counters),
            "excluded": dict(self.excluded),
            "samples": self.samples,
            "failures": self.failures,
            "truncated": self.truncated,
        }


# --------------------------------------------------------------------------
# Hypothesis glue


def hyp_settings(max_examples, tier, stateful_step_count=None, shrink=True):
    from hypothesis import HealthCheck, Phase, settings

    phases = [Phase.explicit, Phase.generate]
    if shrink:
        phases.append(Phase.shrink)
    kw = {}
    if stateful_step_count is not None:
        kw["stateful_step_count"] = stateful_step_count
    return settings(
        max_examples=max_examples,
        database=None,
        deadline=None,
        derandomize=False,
        report_multiple_bugs=False,
        print_blob=False,
        phases=phases,
        suppress_health_check=[HealthCheck.too_slow, HealthCheck.data_too_large, HealthCheck.differing_executors],
        **kw,
    )


def _cap_shrinking(tier):
    try:
        import hypothesis.internal.conjecture.engine as eng

        eng.MAX_SHRINKING_SECONDS = 40 if tier == "quick" else 240
    except Exception:  # pragma: no cover
        pass


def run_given(ctx, fn, strategies, max_examples, seed_value):
    """Run `fn(**drawn)` under Hypothesis; a Violation is shrunk and recorded
    in ctx.failures. Any other exception propagates (harness error)."""
    import hypothesis
    from hypothesis import given
    from hypothesis.errors import HypothesisException

    _cap_shrinking(ctx.tier)

    def wrapped(**kw):
        # watchdog: a single generated case normally takes milliseconds; one that does not come back (an endless loop in the code
        # under test) must not hang the whole check. It ends the run as a harness error (exit 2, inconclusive) - never as a
        # violation, and only after a span no loaded machine needs for one case.
        import signal

        def on_alarm(*_a):
            raise HarnessError(f"a generated case did not finish within {CASE_WATCHDOG_S} s (endless loop in the code under test?): {str(kw)[:300]}")

        armed = False
        try:
            prev = signal.signal(signal.SIGALRM, on_alarm)
            signal.alarm(CASE_WATCHDOG_S)
            armed = True
        except (ValueError, AttributeError):  # not in the main thread / no SIGALRM
            prev = None
        try:
            fn(**kw)
        except Violation:
            ctx.recording = False
            raise
        finally:
            if armed:
                signal.alarm(0)
                signal.signal(signal.SIGALRM, prev)

    test = given(**strategies)(wrapped)
    test = hyp_settings(max_examples, ctx.tier)(test)
    test = hypothesis.seed(seed_value)(test)
    try:
        test()
    except Violation as v:
        ctx.failures.append(v.as_dict())
    except HypothesisException as e:
        raise HarnessError(f"hypothesis: {type(e).__name__}: {e}") from e
    finally:
        ctx.recording = True


def run_machine(ctx, machine_cls, max_examples, steps, seed_value):
    import hypothesis
    from hypothesis.errors import HypothesisException
    from hypothesis.stateful import run_state_machine_as_test

    _cap_shrinking(ctx.tier)
    try:
        run_state_machine_as_test(
            hypothesis.seed(seed_value)(machine_cls),
            settings=hyp_settings(max_examples, ctx.tier, stateful_step_count=steps),
        )
    except Violation as v:
        ctx.failures.append(v.as_dict())
    except HypothesisException as e:
        raise HarnessError(f"hypothesis: {type(e).__name__}: {e}") from e
    finally:
        ctx.recording = True


# --------------------------------------------------------------------------
# Known findings


def load_known(prop_id):
    path = os.path.join(HERE, "known_findings.json")
    if not os.path.exists(path):
        return []
    with open(path) as f:
        data = json.load(f)
    return [e for e in data.get("findings", []) if e.get("property") == prop_id]


def probe_known(prop, prop_id, lines):
    """Returns (active bucket patterns, regression failures).

    open entry  : replay still fails in its bucket -> KNOWN-FINDING line + exclusion
                  replay passes -> inert (no line, no exclusion)
    fixed entry : replay must pass; suppresses nothing.
    """
    active, regressions = [], []
    for e in load_known(prop_id):
        case = None
        if e.get("replay"):
            with open(os.path.join(HERE, e["replay"])) as f:
                case = json.load(f)["case"]
        fail = None
        if case is not None:
            ctx = Ctx(prop_id, "replay", 0)
            try:
                prop.replay(ctx, case)
            except Violation as v:
                fail = v
        if e["status"] == "open":
            if fail is not None and fnmatchcase(fail.bucket, e["bucket"]):
                lines.append(f"KNOWN-FINDING: property={prop_id} {e['what']}")
                active.append(e["bucket"])
            elif fail is not None:
                regressions.append(fail.as_dict())
        else:  # fixed
            if fail is not None:
                regressions.append(fail.as_dict())
    return active, regressions


def replay_dir(prop, prop_id):
    """Committed regression replays not tied to a known-finding entry."""
    out = []
    d = os.path.join(HERE, "replays", prop_id)
    tied = {os.path.normpath(e.get("replay", "")) for e in load_known(prop_id)}
    if not os.path.isdir(d):
        return out
    for name in sorted(os.listdir(d)):
        rel = os.path.normpath(os.path.join("replays", prop_id, name))
        if not name.endswith(".json") or rel in tied or name.startswith("new-"):
            continue
        with open(os.path.join(d, name)) as f:
            case = json.load(f)["case"]
        ctx = Ctx(prop_id, "replay", 0)
        try:
            prop.replay(ctx, case)
        except Violation as v:
            out.append(v.as_dict())
    return out


def write_replay(prop_id, tier, seed, failure):
    d = os.path.join(OUT, "replays", prop_id)
    os.makedirs(d, exist_ok=True)
    h = hashlib.blake2b(canon(failure["case"]).encode(), digest_size=5).hexdigest()
    safe = "".join(c if c.isalnum() or c in "-_." else "_" for c in failure["bucket"])[:80]
    path = os.path.join(d, f"new-{safe}-{h}.json")
    with open(path, "w") as f:
        json.dump(
            {
                "property": prop_id,
                "bucket": failure["bucket"],
                "seed": seed,
                "tier": tier,
                "case": failure["case"],
                "message": failure["message"],
            },
            f,
            indent=1,
            default=repr,
        )
    return os.path.relpath(path, HERE) if OUT == HERE else path


# --------------------------------------------------------------------------
# Worker / main


def _worker(args):
    prop_name, prop_id, tier, seed, known, unit = args
    import importlib

    prop = importlib.import_module(prop_name)
    ctx = Ctx(prop_id, tier, seed, known)
    t0 = time.time()
    try:
        prop.run_unit(ctx, unit)
    except Violation as v:  # raised outside hypothesis (enumerations)
        ctx.failures.append(v.as_dict())
    except HarnessError as e:
        return {"error": f"{unit}: {e}"}
    except BaseException:  # harness bug
        return {"error": f"{unit}: {traceback.format_exc()}"}
    r = ctx.result()
    r["unit"] = unit if isinstance(unit, (str, int)) else canon(unit)
    r["wall"] = time.time() - t0
    return r


def run_check(prop, prop_id, tier, seed):
    t0 = time.time()
    lines = []
    known, regressions = probe_known(prop, prop_id, lines)
    regressions += replay_dir(prop, prop_id)
    for line in lines:
        print(line, flush=True)

    units = prop.units(tier, seed)
    args = [(prop.__name__, prop_id, tier, seed, known, u) for u in units]
    nproc = min(NPROC, max(1, len(args)))
    results = []
    if nproc == 1:
        results = [_worker(a) for a in args]
    else:
        mp = multiprocessing.get_context("fork")
        with mp.Pool(nproc, maxtasksperchild=1 if getattr(prop, "FRESH_PROCESS", False) else None) as pool:
            for r in pool.imap_unordered(_worker, args, chunksize=1):
                results.append(r)

    errors = [r["error"] for r in results if "error" in r]
    for e in errors:
        print("HARNESS-ERROR:", e, file=sys.stderr)
    results = [r for r in results if "error" not in r]
    if errors and not regressions and not any(r["failures"] for r in results):
        return 2  # nothing but harness trouble: never a violation
    # (violations demonstrated by the units that did run are reported even if another unit had harness trouble)

    results.sort(key=lambda r: str(r["unit"]))
    evaluations = sum(r["evaluations"] for r in results)
    nontrivial = set()
    counters, excluded = Counter(), Counter()
    samples, failures = [], list(regressions)
    truncated = False
    for r in results:
        nontrivial.update(r["nontrivial"])
        counters.update(r["counters"])
        excluded.update(r["excluded"])
        for s in r["samples"]:
            if len(samples) < 6:
                samples.append(s)
        failures.extend(r["failures"])
        truncated = truncated or r["truncated"]

    # one replay per bucket
    seen, paths = set(), []
    for f in failures:
        if f["bucket"] in seen:
            continue
        seen.add(f["bucket"])
        paths.append((f, write_replay(prop_id, tier, seed, f)))

    wall = time.time() - t0
    coverage = {
        "evaluations": evaluations,
        "distinct_nontrivial": len(nontrivial),
        "rule": prop.RULE,
        "samples": samples,
        "counters": dict(sorted(counters.items())),
        "excluded_known": dict(excluded),
        "work_units": len(units),
        "truncated": truncated,
    }
    extra = getattr(prop, "coverage_extra", None)
    if extra:
        coverage.update(extra(tier, counters))
    evidence = {
        "property_id": prop_id,
        "tier": tier,
        "seed": seed,
        "level": prop.LEVEL,
        "coverage": coverage,
        "assumptions": list(getattr(prop, "ASSUMPTIONS", [])),
        "wall_s": round(wall, 2),
        "violations": len(paths),
        "known_findings_active": known,
    }
    os.makedirs(os.path.join(OUT, "evidence"), exist_ok=True)
    with open(os.path.join(OUT, "evidence", f"{prop_id}.json"), "w") as f:
        json.dump(evidence, f, indent=1, default=repr)

    for f, p in paths:
        print(f"VIOLATION property={prop_id} replay={p}  # bucket={f['bucket']} :: {f['message'][:300]}", flush=True)
    print(
        f"{prop_id} {tier} seed={seed}: evaluations={evaluations} distinct_nontrivial={len(nontrivial)} "
        f"excluded_known={sum(excluded.values())} violations={len(paths)} wall={wall:.1f}s",
        flush=True,
    )
    return 1 if paths else (2 if errors else 0)


def run_replay(prop, prop_id, path):
    with open(path) as f:
        data = json.load(f)
    ctx = Ctx(prop_id, "replay", 0)
    try:
        prop.replay(ctx, data["case"])
    except Violation as v:
        print(f"VIOLATION property={prop_id} replay={path}  # bucket={v.bucket} :: {v.message[:500]}")
        return 1
    print(f"{prop_id} replay {path}: passes")
    return 0
