"""
C08 - instances share no mutable state with defaults, constructor arguments or peers.

Oracles:
 * after every in-place operation on one instance: snapshots of the class-level default objects,
   of every constructor argument object kept by the caller and of every other instance are unchanged;
 * after reset_<a> / reset / del: the attribute equals what a freshly constructed instance of the same
   class holds, is missing when the descriptor prescribes no default, and shares no mutable object
   with the class-level default, the Attr/field default or any other instance.
"""
from __future__ import annotations

from hypothesis import strategies as st

from vf import grammar, ops
from vf.props.common import op_route
from vf.runner import run_given
from vf.snapshot import Snapshot, diff, mutable_ids

ID = "C08"
LEVEL = "exploration"
RULE = (
    "cases = (generated class world with init-enabled attributes and every default style: literal, mutable literal, Attr(default=), "
    "Attr(default_factory=), dataclasses.field, override in a spec subclass, override in a plain subclass; history of <= 12 steps over a pool of up to 4 "
    "instances: construct (caller keeps the argument objects), in-place helpers and assignments, in-place nested edits through the API, reset_<a>, reset, del, "
    "copy-on-write reset). Non-trivial = >= 2 live instances of one class and a nested in-place mutation followed by a reset/del; distinct = canonical JSON."
)
ASSUMPTIONS = [
    "restricted to init-enabled attributes (as the property states)",
    "'equal to what a newly constructed instance would hold' is decided against an instance constructed with no arguments in the same world",
    "whether a default exists is decided from the descriptor (nearest class along the MRO giving the name a value), not from library metadata",
]
# do_not_copy attributes are by design not copied by the constructor: only a spec subclass may add an inherited attribute
# to its own do_not_copy list (which must not leak into its parent's behaviour)
PROFILE = dict(grammar.PROFILES["data_plain"], flags=False, subclass_dnc=True)


@st.composite
def case_strategy(draw):
    src = grammar.HypSource(draw)
    wd = grammar.gen_world(src, PROFILE)
    info = grammar.world_info(wd)
    steps = [dict(ops.gen_new(src, info), on=0)]
    names = list(info.attrs())
    for _ in range(src.choice(13)):
        m = src.choice(10)
        on = src.choice(4)
        if m == 0 or (len(steps) == 1 and src.chance(1, 2)):
            new = dict(ops.gen_new(src, info), on=on)
            if wd["instance_class"] == "R" and src.chance(1, 2):
                new = dict(ops.gen_new(src, info, cname="M"), on=on, cls="M")  # an instance of the parent spec class
            steps.append(new)
        elif m <= 2:
            a = src.pick(names)
            steps.append({"t": "call", "m": f"reset_{a}", "a": [], "k": {"_inplace": True} if src.chance(2, 3) else {}, "on": on, "reset": [a]})
        elif m == 3:
            steps.append({"t": "del", "attr": src.pick(names), "on": on, "reset": "del"})
        elif m == 4:
            steps.append({"t": "call", "m": "reset", "a": [], "k": {"_inplace": True} if src.chance(2, 3) else {}, "on": on, "reset": "all"})
        else:
            op = ops.gen_op(src, info, inplace=True, bad_rate=(1, 10), allow=("element", "nested", "nested", "nested", "scalar"))
            op["on"] = on
            steps.append(op)
    return {"world": wd, "ops": steps}


def class_dnc(world, cname):
    out = set()
    for c in world.mro_descs(cname):
        d = (c.get("opts") or {}).get("do_not_copy")
        if isinstance(d, list):
            out.update(d)
    return out


def has_default(world, attr):
    return world.declared_default(attr)[0] not in ("none", "attr_none")


def run_case(ctx, case):
    world = grammar.build_world(case["world"])
    steps = case["ops"]
    pool, args = [], []
    defaults = list(world.default_objects)
    cls_defaults = []
    for cname, cls in world.classes.items():
        for name in world.all_attrs.get(cname, {}):
            if name in vars(cls):
                cls_defaults.append(vars(cls)[name])
    fresh_by_class = {}
    nested_edit = saw_reset_after = False

    class Multi:
        """Snapshots of several roots (the roots themselves are harness-owned lists)."""

        def __init__(self, roots):
            self.roots = [x for r in roots for x in r]
            self.snaps = [Snapshot(x) for x in self.roots]

        def changed(self):
            for s_, x in zip(self.snaps, self.roots):
                if s_.identity_form() != Snapshot(x).identity_form():
                    return diff(s_, x) or "changed"
            return None

    def guarded():
        return [defaults, cls_defaults, args]

    for i, op in enumerate(steps):
        if op["t"] == "new":
            rec = []
            before = Multi(guarded() + [pool])
            try:
                inst = ops.construct(world, op, cname=op.get("cls"), record=rec)
            except ops.CLEAN:
                continue
            ch = before.changed()
            if ch:
                ctx.fail("new|changed_defaults_or_peers", case, f"step {i}: constructing an instance changed a default / argument / other instance: {ch}")
                return
            # the new instance shares nothing mutable with defaults, earlier arguments or peers - only with its own arguments
            mine = mutable_ids(inst)
            foreign = {}
            for o in (defaults, cls_defaults, args, pool):
                foreign.update(mutable_ids(o))
            shared = [mine[k] for k in mine if k in foreign]
            own_args = {}
            dnc = class_dnc(world, type(inst).__name__)
            for name, r in zip(op["k"], [None] * len(op["k"])):
                pass
            for r in rec:
                own_args.update(mutable_ids(r))
            # arguments of attributes that are do_not_copy *for this class* are stored as given, by design
            for name in dnc:
                v = object.__getattribute__(inst, "__dict__").get(name)
                for k in mutable_ids(v):
                    own_args.pop(k, None)
            leaked = [mine[k] for k in mine if k in own_args]
            if shared:
                ctx.fail(f"new|shares:{type(shared[0]).__name__}", case, f"step {i}: new instance shares {shared[0]!r} with a default / argument / other instance")
                return
            if leaked:
                ctx.fail(f"new|keeps_argument:{type(leaked[0]).__name__}", case, f"step {i}: new instance holds the caller's argument object {leaked[0]!r} itself (not a copy)")
                return
            pool.append(inst)
            # caller-owned argument objects are guarded from now on - except those of do_not_copy attributes, which the
            # instance holds by identity by design
            # (a list argument of a do_not_copy keyed attribute is cast into a new container around the very same items: what
            # counts is whether the argument shares mutable objects with what the instance holds, not the container's identity)
            held = set()
            for n, v in object.__getattribute__(inst, "__dict__").items():
                if n in dnc:
                    held.update(mutable_ids(v))
            args.extend(r for r in rec if not (set(mutable_ids(r)) & held))
            continue
        if not pool:
            continue
        idx = op["on"] % len(pool)
        cur = pool[idx]
        others = [x for j, x in enumerate(pool) if j != idx]
        rec = []
        before = Multi(guarded() + [others])
        outcome, value = ops.execute(world, cur, {k: v for k, v in op.items() if k not in ("on", "reset")}, rec)
        if outcome == "skip":
            continue
        route = op_route(world, op) if op["t"] != "new" else "new"
        ch = before.changed()
        if ch:
            what = "default / constructor argument / other instance"
            ctx.fail(f"{route}|leaks", case, f"step {i} {op} on instance #{idx} changed a {what}: {ch}")
            return
        ctx.count(f"{outcome}:{route.split(':')[0]}")
        if op["t"] == "nested" and outcome == "ok":
            nested_edit = True
        # objects handed to helpers / assignments are stored as given (ordinary attribute semantics); the property only
        # protects what was passed to the constructor, so `rec` is not added to the guarded set
        if outcome == "ok" and op.get("reset"):
            target = cur
            if op["t"] == "call" and not op["k"].get("_inplace"):
                target = value  # copy-on-write reset: the copy carries the reset
                if not hasattr(target, "__spec_class__"):
                    continue
                # ... and is a peer: it shares nothing mutable with the instance it was made from (do_not_copy attributes
                # excepted - which is why it does not join the pool: the pool's snapshots do not know about such sharing)
                if target is not cur:
                    tdnc = class_dnc(world, type(target).__name__) | {n for n, a in world.attrs(type(target).__name__).items() if a.get("do_not_copy")}
                    skip_dnc = lambda owner, key: hasattr(owner, "__spec_class__") and key in tdnc and type(owner) is type(target)  # noqa: E731
                    mine, theirs = mutable_ids(target, skip_dnc), mutable_ids(cur, skip_dnc)
                    both = [mine[k_] for k_ in mine if k_ in theirs]
                    if both:
                        ctx.fail(f"{route}|copy_shares:{type(both[0]).__name__}", case, f"step {i} {op}: the copy returned by the reset shares {both[0]!r} with the instance it was made from")
                        return

            tcls = type(target).__name__
            tattrs = world.attrs(tcls)
            names = list(tattrs) if op["reset"] == "all" else ([op["attr"]] if op["reset"] == "del" else op["reset"])
            if tcls not in fresh_by_class:
                try:
                    fresh_by_class[tcls] = world.classes[tcls]()
                except ops.CLEAN:
                    fresh_by_class[tcls] = False
            fresh = fresh_by_class[tcls]
            td = object.__getattribute__(target, "__dict__")
            for name in names:
                if name not in tattrs:
                    continue
                dd = world.declared_default(name, tcls)
                # dependants invalidated by this reset are reset too; only the named attributes are asserted
                if dd[0] in ("none", "attr_none"):
                    if name in td:
                        ctx.fail(f"{route}|reset_not_missing", case, f"step {i} {op}: {name!r} has no default but holds {td[name]!r} after the reset")
                        return
                    continue
                if name not in td:
                    ctx.fail(f"{route}|reset_lost_default:{dd[0]}", case,
                             f"step {i} {op}: {name!r} is missing after the reset although the class prescribes the default {dd}")
                    return
                if fresh:
                    fd = object.__getattribute__(fresh, "__dict__")
                    if name in fd and Snapshot(fd[name]).structure() != Snapshot(td[name]).structure():
                        if world.prepare_kind(name) or world.prepare_kind(name, item=True):
                            # root cause: the constructor runs the attribute's (item) preparer over the default, del/reset do not
                            ctx.fail("reset|default-not-prepared", case,
                                     f"step {i} {op}: {name!r} is {td[name]!r} after the reset; a newly constructed {type(target).__name__} holds {fd[name]!r} "
                                     f"(the default is changed by the attribute's own preparer, which reset does not run)")
                            return
                        ctx.fail(f"{route}|reset_wrong_value:{dd[0]}", case,
                                 f"step {i} {op}: {name!r} is {td[name]!r} after the reset; a newly constructed {type(target).__name__} holds {fd[name]!r}")
                        return
                mine = mutable_ids(td[name])
                foreign = {}
                for o in (defaults, cls_defaults, [x for x in pool if x is not target], [f for f in fresh_by_class.values() if f]):
                    foreign.update(mutable_ids(o))
                shared = [mine[k] for k in mine if k in foreign]
                if shared:
                    ctx.fail(f"{route}|reset_shares:{dd[0]}", case,
                             f"step {i} {op}: after the reset {name!r} shares {shared[0]!r} with the class-level default or another instance")
                    return
            if nested_edit:
                saw_reset_after = True
    ctx.case(case, len(pool) >= 2 and saw_reset_after)


BOUNDS = {"quick": dict(examples=450, units=16), "thorough": dict(examples=4000, units=16)}


def units(tier, seed):
    return [["hyp", i] for i in range(BOUNDS[tier]["units"])]


def run_unit(ctx, unit):
    b = BOUNDS[ctx.tier]
    run_given(ctx, lambda case: run_case(ctx, case), {"case": case_strategy()}, b["examples"], ctx.seed * 1000 + unit[1])


def replay(ctx, case):
    run_case(ctx, case)
