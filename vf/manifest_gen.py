"""Regenerates MANIFEST.json from the table below (keeps it valid at all times)."""
import json
import os

HERE = os.path.dirname(os.path.dirname(os.path.abspath(__file__)))

CHECKS = {
    "C13": dict(
        level="exploration",
        technique="model-based property testing: bounded-exhaustive op enumeration + Hypothesis op sequences + atheris fuzzing against a reference list/key-function model",
        text="Every single operation from every KeyedList of <= 4 items (6 item universes incl. equal items under different keys, typed and untyped), every 2-op sequence from small containers, Hypothesis-drawn op sequences up to 25 ops and (thorough) atheris byte-level campaigns, each compared after every step with a plain list + key function model; a raise must leave the full public observation unchanged. Bounded/sampled search, not a proof.",
        note="Trusts the reference model in vf/props/c13.py (plain list + key function) and the completeness of the public observation (list, len, reversed, keys, items, per-key get/[]/index_for_key/in, membership, count).",
        ref="DESIGN.md section 4, C13",
    ),
    "C14": dict(
        level="exploration",
        technique="model-based property testing: bounded-exhaustive op enumeration + Hypothesis op sequences + atheris fuzzing against a reference key->item dict model",
        text="Every single operation (incl. every binary operator against KeyedSet and built-in set operands) from every KeyedSet of <= 3 items over 5 item universes (falsy, unhashable, keyed spec items) x enforce_item_equivalence x typed, 2-op sequences, Hypothesis op sequences up to 25 ops and (thorough) atheris campaigns, compared after every step with a reference dict key->item under the documented membership rule. Bounded/sampled search, not a proof.",
        note="Trusts the reference model in vf/props/c14.py and the operand restrictions listed in the evidence assumptions (shapes where item-equality and key algebra could legitimately differ are not generated).",
        ref="DESIGN.md section 4, C14",
    ),
    "C15": dict(
        level="exploration",
        technique="differential property testing: generated (annotation, value) pairs vs an independent descriptor-level reference checker; exhaustive at depth <= 1/2, Hypothesis to depth 3, atheris byte-level campaigns",
        text="check_type is compared with a reference checker that never looks at typing objects (it works on the descriptor the annotation was built from) on every annotation of depth <= 1 (thorough: depth <= 2 over a reduced base) x derived conforming / one-position-broken values + a general pool, and on Hypothesis/atheris generated annotations to depth 3; any exception from check_type is a violation. Every (annotation, value) pair is also tried on a host spec class declaring x: <annotation>: a conforming value must be accepted by assignment and by the constructor. Sampled beyond the enumerated depth.",
        note="Trusts the reference checker vf/props/c15.py:conforms (written from the property statement) and the descriptor->annotation builder.",
        ref="DESIGN.md section 4, C15",
    ),
    "C12": dict(
        level="exploration",
        technique="model-based testing: exhaustive op-sequence enumeration to a length bound + Hypothesis op sequences against an explicit protocol state machine",
        text="All 64 spec_property configurations (16 option combinations x plain / spec unmanaged / spec managed / managed+preparer / inherited hosts, built through the constructor or the .setter/.deleter/.getter decorator chain, with and without invalidated_by='*') and all 32 classproperty configurations over a three-class chain are driven through every operation sequence up to the length bound (quick 5/4, thorough 6/5) and Hypothesis sequences of up to 40 ops, in lock-step with an explicit override/cache/getter state machine. Exhaustive to the bound, sampled beyond.",
        note="Trusts the protocol model in vf/props/c12.py; custom setter/deleter are modelled as writes to the underlying state.",
        ref="DESIGN.md section 4, C12",
    ),
    "C18": dict(
        level="exploration",
        technique="model-based testing: exhaustive op-sequence enumeration to a length bound + Hypothesis op sequences against a two-variable (target, override) model; generated path strings (Hypothesis/atheris) vs Python eval",
        text="768 alias configurations (passthrough x transform x fallback x 8 path shapes x plain/spec host x Alias/DeprecatedAlias, target initially present or missing) are driven through every op sequence up to the bound (quick 3, thorough 4) and Hypothesis sequences up to 30 ops in lock-step with a (target, override) model, including freshness of fallback copies, typed writes on the spec host, copies carrying the override and deprecation warnings; the path parser is compared with eval on generated path strings. Exhaustive to the bound, sampled beyond.",
        note="Trusts the two-variable model in vf/props/c18.py; path strings the parser rejects with ValueError are accepted as rejected (the statement only constrains accepted paths).",
        ref="DESIGN.md section 4, C18",
    ),
    "C03": dict(
        level="exploration",
        technique="property-based testing over a class-definition grammar: Hypothesis-generated class worlds and API histories with position-specific ill-typed values; invariant checked by an independent reference type checker",
        text="Hypothesis generates spec-class worlds (scalars, containers, nested/keyed spec classes, defaults of every style, preparers, inheritance, lazy/eager) and histories of up to 12 API operations where ~35% of the values are ill-typed at one structural position; after every step an independent reference checker inspects the raw storage of every live instance. Sampled search (quick ~10k, thorough ~56k histories).",
        note="Trusts vf/reftype.py (descriptor-level reference checker) and the grammar's soundness rules (class-level defaults conform to their annotation; users do not mutate contained collections directly).",
        ref="DESIGN.md section 4, C03",
    ),
    "C01": dict(
        level="exploration",
        technique="property-based testing over a class-definition grammar with fault injection: Hypothesis-generated worlds/histories/probes; before/after identity snapshots; callback-fault and sys.settrace line-fault enumeration",
        text="Hypothesis generates class worlds, histories reaching a state and a copy-on-write probe with arbitrary (valid or invalid) arguments; identity+content snapshots of the receiver, every argument, every other live instance and the class-level defaults must be unchanged after the probe - run naturally, once per (user callback, invocation) fault, and with an exception injected at executed library lines (sampled in quick, every line on a third of the cases in thorough). Sampled search.",
        note="Trusts vf/snapshot.py (raw __dict__ / container walk) and replay of the history through the public API to rebuild replicas; transforms are pure by construction.",
        ref="DESIGN.md section 4, C01",
    ),
    "C04": dict(
        level="fault_enumeration",
        technique="property-based testing with enumerated failure causes: generated probes with ill-typed / missing / duplicate / unknown arguments, plus every (user callback, invocation) fault point enumerated on replicas; before/after identity snapshots",
        text="For Hypothesis-generated worlds, states and probes drawn from the whole operation alphabet (constructor, assignment, deletion, helpers with and without _inplace, multi-keyword update/transform, element helpers, nested in-place edits) every way of failing is exercised: ill-typed values per position, missing targets, duplicate keys, unknown keywords, and each callback invocation raising in turn; whenever the probe raises, snapshots of receiver, arguments, peers and class-level defaults must be unchanged.",
        note="Fault points are the invocations of generated user callbacks (transform, attribute transform, preparer, item preparer, __post_copy__) observed in a natural run; trusts vf/snapshot.py.",
        ref="DESIGN.md section 4, C04",
    ),
    "C02": dict(
        level="exploration",
        technique="property-based testing over a class-definition grammar: Hypothesis-generated worlds, histories, copy probes and in-place follow-up mutations; oracle = disjointness of reachable mutable-object ids + before/after snapshot differential",
        text="Hypothesis generates class worlds (incl. do_not_copy attributes via decorator list / Attr flag / inheritance, frozen nested classes), a state, a copy-on-write probe or deepcopy, and up to 6 in-place follow-up operations on one side; the check asserts that result and receiver share no mutable object other than caller-supplied ones and do_not_copy attributes (which must be carried by identity), and that follow-up mutations of one side leave the snapshot of the other unchanged. Sampled search.",
        note="Trusts vf/snapshot.py:mutable_ids / Snapshot (raw storage walk); identity transforms on mutable values are excluded as the property's own quantifier does.",
        ref="DESIGN.md section 4, C02",
    ),
    "C07": dict(
        level="exploration",
        technique="differential property testing over a class-definition grammar: each Hypothesis-generated world is built frozen and as a non-frozen twin and driven through the same history in lock-step; frozen instances are snapshotted forever",
        text="Hypothesis generates class worlds with frozen=True on the main class, on its spec parent (inherited through spec and plain subclasses) or on the nested child class, plus histories of up to 12 operations; every frozen instance ever created must keep its identity snapshot, in-place operations must raise FrozenInstanceError whenever the twin would change (or raise), and copy-on-write operations must return a distinct instance with exactly the twin's resulting state or exception class. Sampled search.",
        note="Frozen-ness is decided from the descriptor (what was declared), not from library metadata; in-place attempts are tried on a deepcopy of the twin; init=False attributes are excluded (see DESIGN.md corrections log).",
        ref="DESIGN.md section 4, C07",
    ),
    "C08": dict(
        level="exploration",
        technique="property-based testing over a class-definition grammar: Hypothesis-generated worlds and multi-instance histories; snapshots of defaults / constructor arguments / peers, reset compared with a freshly constructed instance and with the descriptor's default",
        text="Hypothesis generates worlds with every default style (literal, mutable literal, Attr default/default_factory, dataclasses.field, spec- and plain-subclass overrides) and histories over a pool of up to 4 instances mixing construction (the harness keeps the argument objects), in-place helpers, nested in-place edits, reset_<a>, reset and del; after every step the class-level default objects, constructor arguments and other instances must be unchanged, and after a reset the attribute must equal a fresh instance's, be missing when no default is prescribed, and share no mutable object with defaults or peers. Sampled search.",
        note="Existence of a default is decided from the descriptor; the expected value from an instance constructed with no arguments in the same world (C09 checks that against the descriptor).",
        ref="DESIGN.md section 4, C08",
    ),
    "C10": dict(
        level="exploration",
        technique="property-based testing over a class-definition grammar: Hypothesis-generated instance pools; algebraic laws of == over all pairs/triples, attribute-wise reference comparison, deepcopy/rebuild round-trips, repr parsed against the descriptor",
        text="Hypothesis generates class worlds (incl. compare=False / repr=False attributes, Any-typed attributes holding functions, classes, modules and bound methods) and pools of instances (random histories, one-attribute-different partners for every attribute position, cross-class twins, self-referential variants); == must be reflexive, symmetric, transitive and agree with an independent attribute-wise comparison for same-class operands, deepcopy(x) == x, rebuilding from own values gives an equal instance, and repr never raises and lists exactly the repr-enabled attributes in declaration order. Sampled search.",
        note="Trusts the reference comparison in vf/props/c10.py (values compared with ==, bound methods by wrapped function) and the bracket/quote-aware repr scanner; cyclic structures only for repr.",
        ref="DESIGN.md section 4, C10",
    ),
    "C05": dict(
        level="exploration",
        technique="model-based + metamorphic property testing over a class-definition grammar: Hypothesis-generated worlds, states and probes; executable model of the documented helper semantics on abstract states; copy/in-place, assignment/deletion and fold equivalences on replayed replicas",
        text="For Hypothesis-generated worlds, reachable states and scalar / top-level helper probes in their documented call forms (x _inplace x _if, UNCHANGED / MISSING forms, whole-value and attribute transforms) the abstract state of the result is compared with an independent model of the documentation (prepared value, nested keyword construction / merge, f(old), defaults, invalidation chains), and the library is compared with itself across spellings: copy vs in-place (identical state, receiver returned, copy form leaves the receiver alone), obj.a = v vs with_a(v, _inplace=True), del vs reset_a, update/transform vs folded per-attribute helpers, with_n(k=v) vs with_n(Nested(k=v)), documented no-op forms. Sampled search.",
        note="Trusts vf/model.py (descriptor-only model; permissive where the documentation is silent: transforms returning MISSING, transforming a missing attribute, preparer on restored defaults) and history replay to build replicas.",
        ref="DESIGN.md section 4, C05",
    ),
    "C06": dict(
        level="exploration",
        technique="model-based property testing: element helpers vs the plain Python container operation on a copy of the previous content; Hypothesis-generated worlds/histories + bounded-exhaustive enumeration of contents x helpers x addressing modes",
        text="Every element helper (with_/update_/transform_/without_<singular>) in every addressing mode (_index/_insert, _by_index True/False/absent, key, value, keywords building or updating spec elements, bare-key promotion) is compared with the corresponding plain list/dict/set operation: exhaustively on every content of length <= 3 over 3-value universes incl. 0 and '' (and the missing container) for List[int], List[str], Dict[str,int], Set[int], Set[str], and on Hypothesis-generated worlds (spec-valued and keyed containers, contents reached by prior element operations). Missing targets must raise IndexError/KeyError/ValueError; other attributes must not change.",
        note="The by-index default is computed with the reference type checker; spots where the documentation is silent (ops on a missing container other than with_, mapping with_ without value, identity-sensitive transforms) are unconstrained.",
        ref="DESIGN.md section 4, C06",
    ),
    "C09": dict(
        level="exploration",
        technique="model-based property testing: Hypothesis-generated class hierarchies x enumerated keyword subsets against a reference resolution computed from the hierarchy descriptor",
        text="Hypothesis generates hierarchies of depth <= 3 (spec parents with generated or hand-written constructors of the documented shape, two spec parents, plain subclasses, re-declared and re-defaulted attributes, init=False attributes, key with/without default, overflow attribute, preparers, __post_init__ at different levels); for each, every subset of init-enabled keywords with conforming values plus ill-typed, unknown, init=False-named and positional-key calls is constructed and compared with a descriptor-only model: prepared keyword, else nearest default along the MRO, else missing, parent-owned attributes through the parent's constructor, overflow contents, TypeError cases, __post_init__ exactly once on the final state.",
        note="Trusts the reference model in vf/props/c09.py (Model.construct); undocumented shapes are not generated (bare re-annotation over an inherited default_factory / init=False flag, hand-written constructors not matching their class's declarations).",
        ref="DESIGN.md section 4, C09",
    ),
    "C11": dict(
        level="exploration",
        technique="model-based property testing: Hypothesis-generated dependency graphs and histories against a dirty-closure model; generated pure getters with call counters",
        text="Hypothesis generates dependency graphs (<= 4 derived nodes: cached / uncached, overridable spec_property nodes with invalidated_by lists or '*', Attr(invalidated_by=) nodes, chains, dependants declared on a parent or on a spec subclass, caches filled in __post_init__) over managed, unmanaged and list-valued base attributes, and histories of up to 14 reads, overrides, cache deletions and mutations through every entry point (assignment, deletion, scalar / element / top-level helpers, in place and copy, some failing); every read must equal the recomputation from current state (or the surviving override / the default), and reads of values that nothing invalidated must not re-run the getter. Sampled search.",
        note="Trusts the dirty-closure model in vf/props/c11.py; getters are generated as pure functions of exactly their declared dependencies.",
        ref="DESIGN.md section 4, C11",
    ),
    "C16": dict(
        level="exploration",
        technique="enumeration + property-based testing over class definitions: identity comparison of vars(cls) before/after decoration and first use of every helper; helper-name set vs an independent naming function",
        text="Class definitions are enumerated (12 attribute sets incl. colliding singular/plural pairs x selection through annotations / attrs / attrs_typed / attrs_skip x lazy/eager x private attribute x init/repr/eq switches x user-defined __init__/__repr__/__eq__/__new__ x every expected helper name occupied as function / staticmethod / property / plain value) and combined at random by Hypothesis; after decoration, bootstrap and first use of every helper, everything the class body defined must be the identical object, the __spec_class_* backups must exist and work, exactly the documented helper names must have been added (independent naming function with hand-verified singular forms), private/skipped attributes get none, and colliding names either raise RuntimeError (again on every later use of a lazily decorated class) or resolve to distinct helpers that edit only their own attribute; with any helper name occupied (also on classes with an init_overflow_attr) the generated constructor still builds the documented state.",
        note="Singular forms come from a hand-verified table for the naming pool (not from inflect); staticmethod wrapping of a restored user __new__ is treated as the same object.",
        ref="DESIGN.md section 4, C16",
    ),
    "C17": dict(
        level="exploration",
        technique="signature-vs-behaviour property testing: Hypothesis-generated class worlds; per generated method, enumerated single parameters, keyword pairs, defaults and unadvertised names checked against inspect.signature with behavioural differentials",
        text="For every generated method (constructor, top-level, scalar and element helpers) of Hypothesis-generated class worlds (incl. nested classes with an init=False attribute and with an overflow attribute) the advertised signature is compared with behaviour: positional parameters also work by keyword, every advertised keyword binds and reaches the behaviour (_inplace returns the receiver, _if=False leaves it untouched, _index/_insert position elements, nested keywords land on the nested object, **overflow keywords land in the overflow attribute - twice with different names), omitted non-virtual parameters equal their advertised default, keyword pairs bind, unadvertised names raise TypeError leaving the receiver unchanged (also with _inplace=True), and the nested keywords equal the init-enabled attributes of the nested class computed from the descriptor; omitting a constructor keyword builds what passing its advertised default builds (re-declared / re-defaulted attributes, init=False ancestors), and a value that merely compares equal to the one held is stored as given.",
        note="Valid base calls are constructed from the descriptor; binding errors are recognised by message origin; defaults of virtual parameters are documentation only.",
        ref="DESIGN.md section 4, C17",
    ),
    "C20": dict(
        level="fault_enumeration",
        technique="property-based testing with fault and schedule enumeration: Hypothesis-generated copy histories with sys.settrace line-fault injection, and a deterministic cooperative thread scheduler enumerating preemption schedules; oracle = copyreg.dispatch_table vs pristine snapshot",
        text="copyreg.dispatch_table is compared with a pristine snapshot (optionally containing a user-registered module reducer) after every operation of Hypothesis-generated copy histories (constructors with mutable defaults, helpers, deep copies nested to depth 3, resets, failing calls), after aborting each operation at executed library lines (sampled in quick, every line in thorough), and after concurrent scenarios of 2-3 threads deep-copying module-bearing values under a harness-owned scheduler: every single-preemption schedule over utils/mutation.py + methods/core.py, two-preemption schedules over the copy-protection lines (a fifth in quick, all in thorough, plus both files in thorough) and Hypothesis-drawn schedules; every thread's copy must succeed and equal its source. Global state means the dispatch table, the warnings filter list (object and content) and sys.modules for privately loaded modules; two threads making the first use of two different lazy classes are scheduled through every one- and two-preemption schedule at the lines of build_attr_spec.",
        note="Interleavings at line granularity under a serialising scheduler with cooperative locks (module-global RLock rebinding); aborts inside the copy-protection bookkeeping itself are recorded open known findings.",
        ref="DESIGN.md section 4, C20",
    ),
    "C19": dict(
        level="exploration",
        technique="differential property testing with schedule enumeration: lazy vs eager builds of Hypothesis-generated class worlds; deterministic cooperative thread scheduler enumerating preemption schedules at library source lines",
        text="Every Hypothesis-generated class world (Attr/field declarations, lazy parent and child, plain and spec subclasses, user-defined or inherited __new__) is built lazily and driven through every kind of first trigger (instantiate, __spec_class__, dataclasses.fields, through a subclass or the parent), sequentially and from 2-3 threads under a harness-owned scheduler (yield points at every line of spec_class.py, methods/base.py and types/attr.py; cooperative locks): every single-preemption schedule on three fixed shapes, two-preemption schedules over spec_class.py in thorough, and Hypothesis-drawn (world, triggers, schedule) cases; the canonical description (metadata, helper names, signatures, class-level defaults, every constructed instance) must equal the eager single-threaded build, with no exception and no deadlock. Also: every order of first uses of a class over two lazily bootstrapped bases (incl. a common lazy root and a decorated class below the undecorated one), and two different lazy classes first used by two threads under every single preemption at the lines of the naming / Attr modules.",
        note="Line-granular interleavings under a serialising scheduler (module-global RLock rebinding, watchdog turns stalls into harness errors); beyond two preemptions the schedule space is sampled.",
        ref="DESIGN.md section 4, C19",
    ),
}

NOT_YET = "check not built yet in this revision (see DESIGN.md section 9 for the order); nothing is claimed"


def main():
    props = [json.loads(l) for l in open(os.path.join(HERE, "properties.jsonl"))]
    checks, na = [], []
    for p in props:
        pid = p["id"]
        c = CHECKS.get(pid)
        if not c:
            na.append({"property_id": pid, "reason": NOT_YET})
            continue
        checks.append(
            {
                "property_id": pid,
                "quick_cmd": f"./check {pid} --tier quick",
                "thorough_cmd": f"./check {pid} --tier thorough",
                "evidence_file": f"evidence/{pid}.json",
                "replay_cmd_template": f"./check {pid} --replay {{path}}",
                "engine": "vf",
                "level_claimed": {"category": c["level"], "text": c["text"], "design_ref": c["ref"]},
                "level_note": c["note"],
                "technique": c["technique"],
            }
        )
    manifest = {
        "version": 1,
        "setup_cmd": "./setup.sh",
        "hooks": {
            "guard": "SPEC_CLASSES_VERIF",
            "enable": "no source hooks: all instrumentation is harness-side (sys.settrace, generated callbacks, cooperative lock rebinding); checks import spec_classes from /repo's working tree (override with VF_REPO)",
            "baseline_off_cmd": "cd /repo && /venv/bin/python -m pytest -ra -q -p no:cacheprovider --timeout=900 --continue-on-collection-errors",
            "source_commits": [],
            "add_only": True,
        },
        "engines": [
            {
                "name": "vf",
                "path": "vf/",
                "serves_properties": [c["property_id"] for c in checks],
                "kind_free_text": "Hypothesis 6.168 property-based / stateful testing, bounded-exhaustive enumeration over multiprocessing, atheris coverage-guided fuzzing, sys.settrace fault injection and a deterministic thread scheduler; oracles are reference models, differentials and invariants",
            }
        ],
        "checks": checks,
        "not_applicable": na,
        "notes": "Exit 0 = held on everything explored (KNOWN-FINDING lines possible); exit 1 = VIOLATION lines; exit 2 = harness error. VERIF_SEED and VERIF_TIER honoured. known_findings.json lists open/fixed findings.",
    }
    with open(os.path.join(HERE, "MANIFEST.json"), "w") as f:
        json.dump(manifest, f, indent=1)
    print("checks:", [c["property_id"] for c in checks], "not_applicable:", len(na))


if __name__ == "__main__":
    main()
