"""
Reference type checker over the grammar's type descriptors (shares no code
with spec_classes.utils.type_checking; never inspects typing objects).
"""

from __future__ import annotations


def _is_keyed(v, name):
    return type(v).__name__ == name and type(v).__module__.startswith("spec_classes")


def conforms(v, T, world):
    k = T[0]
    if k == "any":
        return True
    if k == "int":
        return isinstance(v, int)
    if k == "float":
        return isinstance(v, (int, float))
    if k == "str":
        return isinstance(v, str)
    if k == "opt":
        return v is None or conforms(v, T[1], world)
    if k == "union":
        return any(conforms(v, t, world) for t in T[1])
    if k == "literal":
        return any(type(c) is type(v) and c == v for c in T[1])  # (True is not the choice 1, 1.0 is not 1)
    if k == "tuple":
        return isinstance(v, tuple) and len(v) == len(T[1]) and all(conforms(x, t, world) for x, t in zip(v, T[1]))
    if k == "vtuple":
        return isinstance(v, tuple) and all(conforms(x, T[1], world) for x in v)
    if k == "bounded":
        if not conforms(v, [T[1]], world):
            return False
        b = T[2]
        return not (("ge" in b and v < b["ge"]) or ("gt" in b and v <= b["gt"]) or ("le" in b and v > b["le"]) or ("lt" in b and v >= b["lt"]))
    if k == "validated":
        from vf.grammar import VALIDATORS

        return bool(VALIDATORS[T[1]](v))
    if k == "list":
        return isinstance(v, list) and all(conforms(x, T[1], world) for x in v)
    if k == "set":
        return isinstance(v, set) and all(conforms(x, T[1], world) for x in v)
    if k == "dict":
        return isinstance(v, dict) and all(conforms(a, T[1], world) and conforms(b, T[2], world) for a, b in v.items())
    if k == "spec":
        return isinstance(v, world.classes[T[1]])
    if k in ("keyedlist", "keyedset"):
        if not _is_keyed(v, "KeyedList" if k == "keyedlist" else "KeyedSet"):
            return False
        cls = world.classes[T[1]]
        return all(isinstance(x, cls) for x in v) and all(isinstance(kk, str) for kk in v.keys())
    raise AssertionError(T)


def first_violation(obj, world, cname=None):
    """Returns (attr, value) of the first managed attribute of `obj` whose stored value
    does not conform to its declared type, or None. Reads raw instance storage."""
    d = object.__getattribute__(obj, "__dict__")
    for name, a in world.attrs(cname or type(obj).__name__).items():
        if name in d and not conforms(d[name], a["type"], world):
            return name, d[name]
    return None
