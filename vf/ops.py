"""
Operation alphabet over generated worlds: JSON op descriptors, generators and executor.

op forms
  {"t":"new",  "k":{attr: arg}}                              construct the instance class
  {"t":"call", "m":method, "a":[arg], "k":{kw: arg}, "adopt":bool}   helper call on the current object
  {"t":"set",  "attr":name, "v":arg}        obj.attr = v
  {"t":"del",  "attr":name}                 del obj.attr
  {"t":"deepcopy", "adopt":bool}
  {"t":"nested", "path":[step], "op":op}    run `op` on the object reached through path (steps: ["attr",a] | ["idx",a,i] | ["key",a,k])

arg forms: a value descriptor (grammar.gen_value) or a special
  ["$missing"] ["$unchanged"] ["$fn", name, param] ["$key", attr, n] ["$item", attr, n] ["$idx", i]
"""

from __future__ import annotations

import copy

from vf.grammar import KEYS, SINGULAR, Injected, elem_type, family, gen_spec, gen_value, is_collection

CLEAN = (TypeError, ValueError, KeyError, IndexError, AttributeError, RuntimeError, Injected)


def is_special(arg):
    return isinstance(arg, list) and arg and isinstance(arg[0], str) and arg[0].startswith("$")


# ---------------------------------------------------------------------------
# pure transforms

FN_BY_KIND = {
    "int": [["inc", 1], ["double", 0], ["const", 3], ["neg", 0], ["identity", 0], ["wrong", 0], ["to_missing", 0]],
    "float": [["inc", 1], ["const", 2.5], ["identity", 0], ["wrong", 0]],
    "str": [["suffix", "x"], ["const", "k"], ["identity", 0], ["wrong", 0], ["to_missing", 0]],
    "list": [["append_copy", 0], ["rebuild", 0], ["rebuild", 0], ["empty", 0], ["identity", 0], ["wrong", 0]],
    "set": [["rebuild", 0], ["rebuild", 0], ["empty", 0], ["identity", 0], ["wrong", 0]],
    "dict": [["rebuild", 0], ["rebuild", 0], ["empty", 0], ["identity", 0], ["wrong", 0]],
    "spec": [["identity", 0], ["with_first", 0], ["wrong", 0], ["existing", 0], ["existing", 1], ["keyless", 0]],
    "other": [["identity", 0], ["wrong", 0], ["to_missing", 0]],
}


def fn_kind(T):
    k = T[0]
    if k in ("int", "bounded"):
        return "int"
    if k in ("float",):
        return "float"
    if k in ("str", "validated"):
        return "str"
    if k in ("list", "keyedlist"):
        return "list"
    if k in ("set", "keyedset"):
        return "set"
    if k == "dict":
        return "dict"
    if k == "spec":
        return "spec"
    return "other"


def _existing_like(cur, v, n):
    """The n-th object of v's class reachable from `cur` other than v itself (a pure transform may return
    an object that already exists, e.g. another child of the receiver)."""
    found, seen = [], set()

    def walk(o):
        if id(o) in seen or isinstance(o, (int, float, str, bytes, bool, type(None))):
            return
        seen.add(id(o))
        if type(o) is type(v) and o is not v and o is not cur:
            found.append(o)
        if isinstance(o, dict):
            for x in o.values():
                walk(x)
        elif isinstance(o, (list, tuple, set)) or (hasattr(o, "_dict") and hasattr(o, "_key")):
            for x in (sorted(o, key=repr) if isinstance(o, set) or not hasattr(o, "_list") and hasattr(o, "_dict") else o):
                walk(x)
        elif hasattr(o, "__spec_class__"):
            for x in object.__getattribute__(o, "__dict__").values():
                walk(x)

    if cur is not None:
        walk(cur)
    return found[n % len(found)] if found else v


def make_fn(world, name, param, cur=None):
    from spec_classes.types import MISSING

    def fn(v):
        world.tick("fn", name)
        if name == "existing":
            return _existing_like(cur, v, param)
        if name == "keyless":
            # a keyed element that loses its key (no longer addressable: a keyed container must refuse it)
            return v.reset_k() if hasattr(v, "reset_k") else v
        if name == "boom":
            raise ValueError("transform failed")
        if name == "inc":
            return v + param
        if name == "double":
            return v * 2
        if name == "neg":
            return -v
        if name == "const":
            return param
        if name == "suffix":
            return v + param
        if name == "identity":
            return v
        if name == "wrong":
            return _Wrong()
        if name == "to_missing":
            return MISSING
        if name == "append_copy":
            return list(v) + list(v)[:1]
        if name == "rebuild":
            # a NEW container of the same type that holds the SAME item objects (a pure transform)
            if isinstance(v, dict):
                return dict(v)
            if isinstance(v, (list, set)):
                return type(v)(v)
            if hasattr(v, "keys") and hasattr(v, "_dict"):
                return type(v)(list(v))
            return v
        if name == "empty":
            return type(v)() if isinstance(v, (list, set, dict)) or hasattr(v, "keys") else v
        if name == "with_first":
            # a new object derived from v through its own copy-on-write API
            for a in getattr(getattr(v, "__spec_class__", None), "attrs", {}):
                m = getattr(v, f"with_{a}", None)
                old = getattr(v, a, None)
                if m and isinstance(old, int) and not isinstance(old, bool):
                    return m(old + 1)
            return v
        raise AssertionError(name)

    fn.__name__ = f"fn_{name}"
    return fn


class _Wrong:
    def __repr__(self):
        return "<Wrong>"

    def __eq__(self, other):
        return isinstance(other, _Wrong)

    def __hash__(self):
        return 7


# ---------------------------------------------------------------------------
# argument resolution


def resolve(world, cur, arg, record=None):
    """Turn an arg descriptor into a fresh python object. `record` (a list) receives every
    mutable object handed to the library, so that oracles can snapshot them."""
    from spec_classes.types import MISSING, UNCHANGED

    if is_special(arg):
        tag = arg[0]
        if tag == "$missing":
            return MISSING
        if tag == "$unchanged":
            return UNCHANGED
        if tag == "$fn":
            return make_fn(world, arg[1], arg[2], cur)
        if tag == "$idx":
            return arg[1]
        coll = _raw(cur, arg[1])
        if tag == "$key":
            keys = _stable(coll.keys(), coll) if coll is not None and hasattr(coll, "keys") else []
            return keys[arg[2] % len(keys)] if keys else KEYS[arg[2] % len(KEYS)]
        if tag == "$same":
            # the very object the instance already holds under another attribute (or in another container): internal aliasing
            if coll is None:
                return 0
            if len(arg) > 2:
                items = list(coll.values()) if isinstance(coll, dict) else (_stable(coll, coll) if hasattr(coll, "__iter__") else [])
                return items[arg[2] % len(items)] if items else 0
            return coll
        if tag == "$alias":
            # ONE element of the container (a private copy of it), held n times: [e, e, e] / {"a": e, "b": e}
            src_items = list(coll.values()) if isinstance(coll, dict) else (list(coll) if coll is not None else [])
            if not src_items:
                return {} if isinstance(coll, dict) else []
            e = copy.deepcopy(src_items[0])
            return {k: e for k in KEYS[: arg[2]]} if isinstance(coll, dict) else [e] * arg[2]
        if tag == "$item":
            items = list(coll.values()) if isinstance(coll, dict) else (_stable(coll, coll) if coll is not None else [])
            if not items:
                return 0
            v = copy.deepcopy(items[arg[2] % len(items)])  # an equal but distinct object, owned by the caller
            if record is not None:
                record.append(v)
            return v
        raise AssertionError(arg)
    v = world.realize(arg)
    if record is not None and (isinstance(v, (list, dict, set)) or hasattr(v, "__spec_class__") or hasattr(v, "_dict")):
        record.append(v)
    return v


def _stable(items, coll):
    """Set-like containers have no defined order (their iteration order depends on object ids):
    selectors index them in a canonical order so that a case is a pure function of its JSON."""
    items = list(items)
    if isinstance(coll, (set, frozenset)) or (hasattr(coll, "_dict") and not hasattr(coll, "_list")):
        return sorted(items, key=repr)
    return items


def _raw(obj, attr):
    try:
        return object.__getattribute__(obj, "__dict__").get(attr)
    except Exception:
        return None


# ---------------------------------------------------------------------------
# generation


def gen_new(src, world, cname=None, bad_rate=(0, 1)):
    kw = {}
    for name, a in world.attrs(cname).items():
        if a.get("init") is False:
            continue
        if src.chance(1, 2):
            good = not src.chance(*bad_rate)
            kw[name] = gen_value(src, a["type"], good)
    return {"t": "new", "k": kw}


def gen_arg_value(src, T, bad_rate):
    good = not src.chance(*bad_rate)
    if not good:
        src.bad_drawn = True
    return gen_value(src, T, good)


def gen_nested_kwargs(src, cname, bad_rate):
    kw = {}
    if cname == "U":
        if src.chance(2, 3):
            kw["a"] = gen_arg_value(src, ["int"], bad_rate)
        if src.chance(1, 3):
            kw["b"] = gen_arg_value(src, ["str"], bad_rate)
    else:
        if src.chance(1, 2):
            kw["k"] = src.pick(KEYS)
        if src.chance(2, 3):
            kw["v"] = gen_arg_value(src, ["int"], bad_rate)
    if src.chance(1, 12):
        kw["bogus"] = 1  # unknown keyword
    return kw


def gen_flags(src, inplace):
    k = {}
    if inplace is True or (inplace is None and src.chance(1, 3)):
        k["_inplace"] = True
    elif src.chance(1, 10):
        # "not in place", also in the spellings an optional flag passed straight through arrives in
        k["_inplace"] = src.pick([False, False, None, 0])
    if src.chance(1, 12):
        k["_if"] = src.chance(1, 2)
    return k


def gen_fn(src, T):
    name, param = src.pick(FN_BY_KIND[fn_kind(T)])
    return ["$fn", name, param]


def gen_scalar_call(src, world, cname, attr, inplace, bad_rate):
    a = world.attrs(cname)[attr]
    T = a["type"]
    m = src.choice(8)
    if T[0] == "spec":
        m = src.pick([0, 1, 3, 3, 3, 4, 5, 6, 7])  # nested spec values: the keyword-merging update_<a> form matters most
    k = gen_flags(src, inplace)
    if m <= 2:  # with_<a>(v)
        v = src.pick([["$missing"], ["$unchanged"]]) if src.chance(1, 12) else gen_arg_value(src, T, bad_rate)
        args = [v] if not src.chance(1, 10) else []
        if T[0] == "spec" and src.chance(1, 2):
            args = [] if src.chance(1, 2) else args
            k.update(gen_nested_kwargs(src, T[1], bad_rate))
        return {"t": "call", "m": f"with_{attr}", "a": args, "k": k}
    if m == 3:  # update_<a>
        args = []
        if T[0] == "spec":
            if src.chance(1, 4):
                args = [gen_arg_value(src, T, bad_rate)]
            if not src.chance(1, 5):  # 1 in 5: bare update_<attr>() with nothing to update
                k.update(gen_nested_kwargs(src, T[1], bad_rate))
        else:
            args = [gen_arg_value(src, T, bad_rate)]
        return {"t": "call", "m": f"update_{attr}", "a": args, "k": k}
    if m in (4, 5):  # transform_<a>
        args = [gen_fn(src, T)]
        returns_existing = args[0][1] == "existing"  # a transform handing back an object the receiver already holds
        if T[0] == "spec" and (src.chance(1, 2) or returns_existing):
            if not returns_existing and src.chance(1, 2):
                args = []  # attribute transforms only (else: whole-value transform AND attribute transforms)
            inner = "a" if T[1] == "U" else "v"
            k[inner] = gen_fn(src, ["int"])
        return {"t": "call", "m": f"transform_{attr}", "a": args, "k": k}
    if m == 6:
        return {"t": "call", "m": f"reset_{attr}", "a": [], "k": k}
    # assignment / deletion are the in-place spellings
    if inplace is False:
        return {"t": "call", "m": f"reset_{attr}", "a": [], "k": k}
    if src.chance(2, 3):
        return {"t": "set", "attr": attr, "v": gen_arg_value(src, T, bad_rate)}
    return {"t": "del", "attr": attr}


def gen_index(src):
    return src.pick([0, 1, -1, 2, -2, 5, -6, 3])


def gen_element_call(src, world, cname, attr, inplace, bad_rate):
    a = world.attrs(cname)[attr]
    T = a["type"]
    E = elem_type(T)
    fam = family(T)
    s = SINGULAR[attr]
    k = gen_flags(src, inplace)
    verb = src.pick(["with", "with", "update", "transform", "without"])
    spec_elem = E[0] == "spec"
    keyed = spec_elem and E[1] == "N"

    def item(good_bias=True):
        if keyed and src.chance(1, 4):
            return src.pick(KEYS)  # bare key promotion
        return gen_arg_value(src, E, bad_rate)

    def addr():
        """value-or-index / key / item addressing an existing (or missing) element"""
        if fam == "seq":
            m = src.choice(5)
            if m <= 1:
                return gen_index(src), {"_by_index": True} if src.chance(1, 2) else {}
            if m == 2 and (keyed or T[0] == "keyedlist"):
                return ["$key", attr, src.choice(4)], {}
            if m == 3:
                return ["$item", attr, src.choice(4)], ({"_by_index": False} if src.chance(1, 2) else {})
            return gen_arg_value(src, E, bad_rate), ({"_by_index": src.chance(1, 2)} if src.chance(1, 3) else {})
        if fam == "map":
            return (["$key", attr, src.choice(4)] if src.chance(3, 4) else src.pick(KEYS + [1])), {}
        # set
        m = src.choice(4)
        if m <= 1:
            return ["$item", attr, src.choice(4)], {}
        if m == 2 and keyed:
            return ["$key", attr, src.choice(4)], {}
        return gen_arg_value(src, E, bad_rate), {}

    if verb == "with":
        args = []
        if fam == "seq":
            if not (spec_elem and src.chance(1, 3)):
                args = [item()]
            if src.chance(1, 3):
                k["_index"] = gen_index(src)
                if T[0] == "keyedlist" and src.chance(1, 3):
                    k["_index"] = ["$key", attr, src.choice(4)]  # a keyed list may be addressed by key - also as the position
                if src.chance(1, 2):
                    k["_insert"] = src.chance(3, 4)
        elif fam == "map":
            key = src.pick(KEYS) if src.chance(4, 5) else src.pick([1, None])
            if key is None and not src.chance(1, 3):
                key = "a"
            args = [key]
            if not (spec_elem and src.chance(1, 3)):
                args.append(gen_arg_value(src, E, bad_rate))
        else:
            if not (spec_elem and src.chance(1, 3)):
                args = [item()]
        if spec_elem and src.chance(1, 2):
            k.update(gen_nested_kwargs(src, E[1], bad_rate))
        return {"t": "call", "m": f"with_{s}", "a": args, "k": k}
    if verb == "update":
        target, extra = addr()
        k.update(extra)
        args = [target]
        if spec_elem:
            if src.chance(1, 4):
                args.append(gen_arg_value(src, E, bad_rate))
            k.update(gen_nested_kwargs(src, E[1], bad_rate))
        else:
            args.append(gen_arg_value(src, E, bad_rate))
        return {"t": "call", "m": f"update_{s}", "a": args, "k": k}
    if verb == "transform":
        target, extra = addr()
        k.update(extra)
        args = [target, gen_fn(src, E)]
        if spec_elem and src.chance(1, 2):
            if src.chance(1, 2):
                args = [target]
            k["a" if E[1] == "U" else "v"] = gen_fn(src, ["int"])
        return {"t": "call", "m": f"transform_{s}", "a": args, "k": k}
    target, extra = addr()
    k.update(extra)
    return {"t": "call", "m": f"without_{s}", "a": [target], "k": k}


def gen_toplevel_call(src, world, cname, inplace, bad_rate):
    attrs = world.attrs(cname)
    names = list(attrs)
    m = src.choice(4)
    k = gen_flags(src, inplace)
    if m == 3:
        return {"t": "call", "m": "reset", "a": [], "k": k}
    n = 1 + src.choice(min(3, len(names)))
    chosen = []
    invalidators = sorted({i for a in attrs.values() for i in (a.get("invalidated_by") or ()) if i in attrs})
    if invalidators and src.chance(1, 3):
        # an attribute that invalidates dependants goes first, so that a later failing attribute exercises the rollback
        first = src.pick(invalidators)
        chosen.append(first)
        n = max(n, 2)
        deps = [d for d, a in attrs.items() if first in (a.get("invalidated_by") or ()) and d != first]
        if deps and src.chance(1, 2):
            # ... followed by one of its dependants: keywords are applied in order, so the dependant's new value / transform
            # starts from the default the first keyword has just restored
            chosen.append(src.pick(deps))
    for _ in range(n):
        a = src.pick(names)
        if a not in chosen:
            chosen.append(a)
    if m <= 1:
        for j, a in enumerate(chosen):
            if j == 0 and a in invalidators:
                k[a] = gen_value(src, attrs[a]["type"], True)
                continue
            k[a] = gen_arg_value(src, attrs[a]["type"], bad_rate)
        if src.chance(1, 12):
            k["bogus"] = 1
        return {"t": "call", "m": "update", "a": [], "k": k}
    for a in chosen:
        k[a] = gen_fn(src, attrs[a]["type"])
    return {"t": "call", "m": "transform", "a": [], "k": k}


def gen_op(src, world, cname=None, inplace=None, bad_rate=(1, 4), allow=("scalar", "element", "top", "deepcopy", "nested")):
    """One operation on an instance of class `cname`. inplace: True / False / None (mixed)."""
    cname = cname or world.desc["instance_class"]
    attrs = world.attrs(cname)
    colls = [n for n, a in attrs.items() if is_collection(a["type"])]
    kinds = []
    if "scalar" in allow:
        kinds += ["scalar"] * 3
    if "element" in allow and colls:
        kinds += ["element"] * 4
    if "top" in allow:
        kinds += ["top"]
    if "deepcopy" in allow:
        kinds += ["deepcopy"]
    if "unmanaged" in allow and src.chance(1, 8):
        return {"t": "set", "attr": "side_note", "v": src.pick([1, "s"])} if src.chance(2, 3) else {"t": "del", "attr": "side_note"}
    nested_targets = [n for n, a in attrs.items() if a["type"][0] == "spec" or (is_collection(a["type"]) and elem_type(a["type"])[0] == "spec")]
    if "nested" in allow and nested_targets and inplace is not False:
        kinds += ["nested"]
    kind = src.pick(kinds)
    src.bad_drawn = False
    if kind == "scalar":
        # nested spec-class values have the richest scalar helpers (constructor, keyword merging, attribute transforms): weight x3
        name = src.pick(list(attrs) + 2 * [n for n, a in attrs.items() if a["type"][0] == "spec"])
        op = gen_scalar_call(src, world, cname, name, inplace, bad_rate)
        if src.bad_drawn:
            op["bad"] = "elem" if is_collection(attrs[name]["type"]) or attrs[name]["type"][0] in ("spec", "tuple", "vtuple") else "top"
    elif kind == "element":
        op = gen_element_call(src, world, cname, src.pick(colls), inplace, bad_rate)
        if src.bad_drawn:
            op["bad"] = "elem"
    elif kind == "top":
        op = gen_toplevel_call(src, world, cname, inplace, bad_rate)
        if src.bad_drawn:
            op["bad"] = "top"
    elif kind == "deepcopy":
        op = {"t": "deepcopy"}
    else:
        attr = src.pick(nested_targets)
        T = attrs[attr]["type"]
        if T[0] == "spec":
            path, inner = [["attr", attr]], T[1]
        elif family(T) == "map":
            path, inner = [["key", attr, src.choice(4)]], elem_type(T)[1]
        else:
            path, inner = [["idx", attr, src.choice(4)]], elem_type(T)[1]
        if inner == "U":
            sub = gen_scalar_call(src, world, "U", src.pick(["a", "b"]), True, bad_rate)
        elif src.chance(1, 3):
            sub = {"t": "call", "m": "with_note", "a": [src.pick(["", "n", "m"])], "k": {"_inplace": True}}
        else:
            sub = gen_scalar_call(src, world, "N", src.pick(["v", "notes"]), True, bad_rate)
        return {"t": "nested", "path": path, "op": sub, **({"bad": "elem"} if src.bad_drawn else {})}
    if op["t"] in ("call", "deepcopy"):
        op["adopt"] = src.chance(2, 3)
    return op


# ---------------------------------------------------------------------------
# execution


def construct(world, op, cname=None, record=None):
    cls = world.classes[cname or world.desc["instance_class"]]
    kw = {k: resolve(world, None, v, record) for k, v in op["k"].items()}
    return cls(**kw)


def locate(cur, path):
    obj = cur
    for step in path:
        if step[0] == "attr":
            obj = getattr(obj, step[1])
        else:
            coll = getattr(obj, step[1])
            items = list(coll.values()) if isinstance(coll, dict) else _stable(coll, coll)
            if not items:
                raise LookupError("empty")
            obj = items[step[2] % len(items)]
    return obj


def bind(world, cur, op, record=None):
    """Resolve the arguments of `op` now and return a zero-argument callable that performs it
    (so that an oracle can snapshot the argument objects before the call). Returns None when
    the op does not apply to `cur` (skip)."""
    t = op["t"]
    if t == "call":
        m = getattr(cur, op["m"], None)
        if m is None:
            return None
        args = [resolve(world, cur, a, record) for a in op["a"]]
        kw = {k: resolve(world, cur, v, record) for k, v in op["k"].items()}
        return lambda: m(*args, **kw)
    if t == "set":
        v = resolve(world, cur, op["v"], record)
        return lambda: setattr(cur, op["attr"], v)
    if t == "del":
        return lambda: delattr(cur, op["attr"])
    if t == "deepcopy":
        return lambda: copy.deepcopy(cur)
    if t == "nested":
        try:
            target = locate(cur, op["path"])
        except (LookupError, AttributeError, TypeError):
            return None
        if not hasattr(target, "__spec_class__"):
            return None
        return bind(world, target, op["op"], record)
    if t == "new":
        cls = world.classes[op.get("cls") or world.desc["instance_class"]]
        kw = {k: resolve(world, None, v, record) for k, v in op["k"].items()}
        return lambda: cls(**kw)
    raise AssertionError(op)


def call(thunk):
    try:
        return "ok", thunk()
    except CLEAN as e:
        return "raise", e
    except RecursionError as e:  # pragma: no cover
        return "raise", e


def execute(world, cur, op, record=None):
    """Run one op on `cur`. Returns (outcome, value) with outcome 'ok' | 'raise' | 'skip'."""
    try:
        thunk = bind(world, cur, op, record)
    except CLEAN as e:  # raised while building an argument (e.g. a nested spec literal)
        return "raise", e
    if thunk is None:
        return "skip", None
    return call(thunk)


def is_inplace(op):
    if op["t"] in ("set", "del"):
        return True
    if op["t"] == "nested":
        return True
    if op["t"] == "call":
        return op["k"].get("_inplace") is True
    return False


def adopt(world, cur, op, outcome, value):
    """History threading: continue on the returned copy when the op says so."""
    if outcome == "ok" and op.get("adopt") and op["t"] in ("call", "deepcopy") and isinstance(value, type(cur)):
        return value
    return cur


def gen_history(src, world, max_ops=8, **kw):
    ops = [gen_new(src, world, bad_rate=(0, 1))]
    for _ in range(src.choice(max_ops + 1)):
        ops.append(gen_op(src, world, **kw))
    return ops


def run_history(world, ops, record=None):
    """Returns the current instance after the history (None if construction failed)."""
    try:
        cur = construct(world, ops[0], record=record)
    except CLEAN:
        return None
    for op in ops[1:]:
        outcome, value = execute(world, cur, op, record)
        cur = adopt(world, cur, op, outcome, value)
    return cur
