"""
C13 - KeyedList is a list with unique keys and a coherent key index.

Oracle: a plain python list + key function (reference model). After every
operation the full public observation of the KeyedList must equal the model's;
an operation that would duplicate a key raises ValueError; every operation that
raises leaves the observation unchanged.
"""

from __future__ import annotations

import itertools
import typing

from hypothesis import strategies as st

from vf.runner import Violation, run_given

ID = "C13"
LEVEL = "exploration"
RULE = (
    "cases = (item universe, typed?, initial container, op sequence); enumerated exhaustively for every container "
    "of <= N distinct-key items x every single op (indices in [-len-2, len+2], every item/key of the universe, "
    "wrong-typed items on typed lists) and every 2-op sequence from smaller containers; longer sequences are "
    "Hypothesis-drawn op lists. Oracle = plain list + key function. Non-trivial = the sequence reaches length >= 2 "
    "and contains a write that raises, or an op with a negative index or key addressing; distinct = canonical JSON "
    "of (universe, typed, initial, ops)."
)
ASSUMPTIONS = [
    "keys()/items() are compared as sets/mappings (dict views; no document promises list order for them)",
    "integer subscripts are indices by design; int keys are checked through get()/index_for_key()",
    "slice assignment/deletion raise RuntimeError by documented design: only 'raises and changes nothing' is checked",
    "the typing of the result of + and slicing (KeyedList[T, K] vs bare KeyedList) is not asserted",
]

# ---------------------------------------------------------------------------
# Universes

_ENV = {}


def env():
    if not _ENV:
        from typing import Tuple

        from spec_classes import spec_class
        from spec_classes.types import KeyedList

        @spec_class(key="k", bootstrap=True)
        class It:
            k: str
            v: int = 0

        from spec_classes import Attr

        @spec_class(key="k", bootstrap=True)
        class It2:  # the key takes no part in equality: items with different keys compare equal
            k: str = Attr(compare=False)
            v: int = 0

        _ENV.update(It=It, It2=It2, KeyedList=KeyedList, Tuple=Tuple)
    return _ENV


KEYS = ["", "b", "c", "d"]  # the empty string is a legal (falsy) key / self-keyed item


class Universe:
    def __init__(self, name, nkeys, payloads):
        self.name = name
        self.nkeys = nkeys
        self.payloads = payloads

    # item encodings are JSON lists [keyindex, payload]
    def item(self, enc):
        ki, p = enc
        n = self.name
        if n == "self":
            return KEYS[ki]
        if n == "selfint":
            return ki * 10  # self-keyed ints incl. falsy 0 (subscripts stay indices)
        if n == "tuple":
            return (KEYS[ki], p)
        if n == "tupleint":
            return (ki * 10, p)
        if n == "spec":
            return env()["It"](KEYS[ki], v=p)
        if n == "eqspec":
            return env()["It2"](KEYS[ki], v=p)
        raise AssertionError(n)

    def keyfn(self):
        if self.name in ("tuple", "tupleint"):
            return _first
        return None

    def key_of_enc(self, enc):
        return self.key(enc[0])

    def key(self, ki):
        return ki * 10 if self.name in ("selfint", "tupleint") else KEYS[ki]

    def model_key(self, item):
        n = self.name
        if n in ("self", "selfint"):
            return item
        if n in ("tuple", "tupleint"):
            return item[0]
        return item.k

    def all_encs(self):
        return [[ki, p] for ki in range(self.nkeys) for p in self.payloads]

    def typed_alias(self):
        KL = env()["KeyedList"]
        n = self.name
        if n == "self":
            return KL[typing.Union[str, float], str]  # (the item type admits floats too: 7.5 is refused for its key, which is no str)
        if n == "selfint":
            return KL[int, int]
        if n == "tuple":
            return KL[tuple, str]
        if n == "tupleint":
            return KL[tuple, int]
        return KL[env()["It2" if n == "eqspec" else "It"], str]

    def bad_items(self):
        """(label, object) pairs that a typed list must reject with TypeError."""
        n = self.name
        if n == "self":
            return [("baditem", 7.5)]  # float: hashable, own key, wrong item and key type
        if n == "selfint":
            return [("baditem", "zz")]
        if n == "tuple":
            return [("badkey", (99, 0)), ("baditem", ["a", 0])]
        if n == "tupleint":
            return [("badkey", ("zz", 0)), ("baditem", [0, 0])]
        return [("baditem", "zz")]  # str where It expected (hashable: key is itself, a str)


def _first(t):
    # a key function is only defined on items; like the built-in default it
    # signals "not an item" with TypeError (which the containers handle)
    if not isinstance(t, (tuple, list)):
        raise TypeError("not an item")
    return t[0]


def universes(nkeys):
    return {
        "self": Universe("self", nkeys, [0]),
        "selfint": Universe("selfint", nkeys, [0]),
        "tuple": Universe("tuple", nkeys, [0, 1]),
        "tupleint": Universe("tupleint", nkeys, [0, 1]),
        "spec": Universe("spec", nkeys, [0, 1]),
        # equal items under different keys: position lookups go by key, never by equality of the items
        "eqspec": Universe("eqspec", nkeys, [0]),
    }


# ---------------------------------------------------------------------------
# Building the real container and observing it

CLEAN = (IndexError, KeyError, ValueError, TypeError, RuntimeError)


def build(u, typed, encs):
    KL = env()["KeyedList"]
    items = [u.item(e) for e in encs]
    if typed:
        real = u.typed_alias()(items, key=u.keyfn())
    else:
        real = KL(items, key=u.keyfn())
    return real, items


def observe(u, real):
    """Complete public observation, as plain data."""
    lst = list(real)
    obs = {
        "list": lst,
        "len": len(real),
        "reversed": list(reversed(real)),
        "keys": sorted(map(repr, real.keys())),
        "nkeys": len(real.keys()),
        "items": {repr(k): v for k, v in real.items()},
        "by_index": [real[i] for i in range(len(real))],
        "by_negindex": [real[-i - 1] for i in range(len(real))],
    }
    per_key = {}
    for ki in range(u.nkeys):
        k = u.key(ki)
        d = {"get": real.get(k, "<none>"), "in": k in real}
        try:
            d["index_for_key"] = real.index_for_key(k)
        except KeyError:
            d["index_for_key"] = "KeyError"
        if not isinstance(k, int):
            try:
                d["getitem"] = real[k]
            except KeyError:
                d["getitem"] = "KeyError"
        per_key[repr(k)] = d
    obs["per_key"] = per_key
    memb = {}
    for enc in u.all_encs():
        it = u.item(enc)
        memb[repr(enc)] = (it in real, real.count(it))
    obs["membership"] = memb
    return obs


def model_observe(u, m):
    keys = [u.model_key(x) for x in m]
    obs = {
        "list": list(m),
        "len": len(m),
        "reversed": list(reversed(m)),
        "keys": sorted(map(repr, keys)),
        "nkeys": len(set(map(repr, keys))),
        "items": {repr(k): v for k, v in zip(keys, m)},
        "by_index": list(m),
        "by_negindex": list(reversed(m)),
    }
    per_key = {}
    for ki in range(u.nkeys):
        k = u.key(ki)
        idx = keys.index(k) if k in keys else None
        d = {"get": m[idx] if idx is not None else "<none>", "in": idx is not None}
        d["index_for_key"] = idx if idx is not None else "KeyError"
        if not isinstance(k, int):
            d["getitem"] = m[idx] if idx is not None else "KeyError"
        per_key[repr(k)] = d
    obs["per_key"] = per_key
    memb = {}
    for enc in u.all_encs():
        it = u.item(enc)
        is_key = any(it == k for k in keys) if u.name in ("self", "selfint") else False
        memb[repr(enc)] = ((it in m) or is_key, m.count(it))
    obs["membership"] = memb
    return obs


# ---------------------------------------------------------------------------
# Operations. op = [name, *args]; item args are encodings or ["bad", j].


def _item(u, enc):
    if enc and enc[0] == "bad":
        return u.bad_items()[enc[1]][1], True
    return u.item(enc), False


def _dups(u, lst):
    keys = [repr(u.model_key(x)) for x in lst]
    return len(set(keys)) != len(keys)


def model_apply(u, typed, m, op):
    """Returns (outcome, value, new_model) with outcome 'ok' or an exception class."""
    name = op[0]
    new = list(m)

    def finish(value=None, badtype=False):
        if badtype:
            return TypeError, None, m
        if _dups(u, new):
            return ValueError, None, m
        return "ok", value, new

    try:
        if name == "getitem_idx":
            return "ok", m[op[1]], m
        if name == "getitem_key":
            k = u.key(op[1])
            for x in m:
                if u.model_key(x) == k:
                    return "ok", x, m
            return KeyError, None, m
        if name == "getitem_slice":
            return "ok", m[slice(*op[1])], m
        if name in ("setitem_slice", "delitem_slice"):
            return RuntimeError, None, m
        if name == "setitem_idx":
            it, bad = _item(u, op[2])
            try:
                new[op[1]] = it  # IndexError as for list
            except IndexError:
                return ((IndexError, TypeError) if bad and typed else IndexError), None, m
            return finish(badtype=bad and typed)
        if name == "setitem_key":
            k = u.key(op[1])
            idx = [i for i, x in enumerate(m) if u.model_key(x) == k]
            it, bad = _item(u, op[2])
            if not idx:
                return ((KeyError, TypeError) if bad and typed else KeyError), None, m
            new[idx[0]] = it
            return finish(badtype=bad and typed)
        if name == "delitem_idx":
            del new[op[1]]
            return finish()
        if name == "delitem_key":
            k = u.key(op[1])
            idx = [i for i, x in enumerate(m) if u.model_key(x) == k]
            if not idx:
                return KeyError, None, m
            del new[idx[0]]
            return finish()
        if name == "insert":
            it, bad = _item(u, op[2])
            new.insert(op[1], it)
            return finish(badtype=bad and typed)
        if name == "append":
            it, bad = _item(u, op[1])
            new.append(it)
            return finish(badtype=bad and typed)
        if name in ("extend", "iadd"):
            its = [_item(u, e) for e in op[1]]
            new.extend(i for i, _ in its)
            return finish(badtype=typed and any(b for _, b in its))
        if name == "pop":
            v = new.pop() if op[1] is None else new.pop(op[1])
            return finish(v)
        if name == "remove":
            it, _ = _item(u, op[1])
            new.remove(it)
            return finish()
        if name == "reverse":
            new.reverse()
            return finish()
        if name == "clear":
            new.clear()
            return finish()
        if name == "add":
            its = [_item(u, e)[0] for e in op[1]]
            res = m + its
            if _dups(u, res):
                return ValueError, None, m
            return "ok", res, m
        if name == "radd":
            its = [_item(u, e)[0] for e in op[1]]
            res = its + m
            if _dups(u, res):
                return ValueError, None, m
            return "ok", res, m
        if name == "index":
            it, _ = _item(u, op[1])
            return "ok", m.index(it), m
        if name == "iter":
            return "ok", list(m), m
    except (IndexError, ValueError) as e:
        return type(e), None, m
    raise AssertionError(op)


def real_apply(u, real, op):
    name = op[0]
    if name == "getitem_idx":
        return real[op[1]]
    if name == "getitem_key":
        return real[u.key(op[1])]
    if name == "getitem_slice":
        return real[slice(*op[1])]
    if name == "setitem_slice":
        real[slice(*op[1])] = [_item(u, e)[0] for e in op[2]]
        return None
    if name == "delitem_slice":
        del real[slice(*op[1])]
        return None
    if name == "setitem_idx":
        real[op[1]] = _item(u, op[2])[0]
        return None
    if name == "setitem_key":
        real[u.key(op[1])] = _item(u, op[2])[0]
        return None
    if name == "delitem_idx":
        del real[op[1]]
        return None
    if name == "delitem_key":
        del real[u.key(op[1])]
        return None
    if name == "insert":
        return real.insert(op[1], _item(u, op[2])[0])
    if name == "append":
        return real.append(_item(u, op[1])[0])
    if name == "extend":
        return real.extend([_item(u, e)[0] for e in op[1]])
    if name == "iadd":
        r = real
        r += [_item(u, e)[0] for e in op[1]]
        if r is not real:
            raise Violation("iadd:identity", None, "+= did not return the same container")
        return None
    if name == "pop":
        return real.pop() if op[1] is None else real.pop(op[1])
    if name == "remove":
        return real.remove(_item(u, op[1])[0])
    if name == "reverse":
        return real.reverse()
    if name == "clear":
        return real.clear()
    if name == "add":
        return real + [_item(u, e)[0] for e in op[1]]
    if name == "radd":
        return [_item(u, e)[0] for e in op[1]] + real
    if name == "index":
        return real.index(_item(u, op[1])[0])
    if name == "iter":
        return list(iter(real))
    raise AssertionError(op)


KEY_OPS = {"getitem_key", "setitem_key", "delitem_key"}
WRITE_OPS = {
    "setitem_idx", "setitem_key", "delitem_idx", "delitem_key", "insert", "append", "extend", "iadd",
    "pop", "remove", "reverse", "clear", "setitem_slice", "delitem_slice",
}
CONTAINER_RESULT = {"getitem_slice", "add", "radd"}


def _addr(op):
    if op[0] in KEY_OPS:
        return "key"
    if op[0] in ("getitem_idx", "setitem_idx", "delitem_idx", "insert", "pop") and isinstance(op[1], int) and op[1] < 0:
        return "neg"
    return "pos"


def _oname(outcome):
    return "|".join(c.__name__ for c in outcome) if isinstance(outcome, tuple) else outcome.__name__


def run_case(ctx, case):
    """case = {universe, nkeys, typed, init: [enc], ops: [op]}"""
    u = universes(case["nkeys"])[case["universe"]]
    typed = case["typed"]
    real, m = build(u, typed, case["init"])
    KL = env()["KeyedList"]

    def check_obs(op, clause):
        exp = model_observe(u, m)
        got = observe(u, real)
        if got != exp:
            diff = [k for k in exp if exp[k] != got.get(k)]
            ctx.fail(
                f"{op[0]}:{clause}:{_addr(op)}:{diff[0]}",
                case,
                f"after {op}: observation differs in {diff}: expected {exp[diff[0]]!r} got {got[diff[0]]!r}",
            )
            return False
        return True

    if not check_obs(["construct"], "state"):
        return
    saw_failing_write = saw_addr = False
    maxlen = len(m)
    intkeyed = u.name in ("selfint", "tupleint")
    for op in case["ops"]:
        if intkeyed and op[0] in KEY_OPS:
            continue  # an int subscript is an index by design; int keys go through get()/index_for_key()
        outcome, value, new_m = model_apply(u, typed, m, op)
        try:
            got = real_apply(u, real, op)
            raised = None
        except CLEAN as e:
            raised = e
        if raised is not None:
            if outcome == "ok":
                ctx.fail(f"{op[0]}:unexpected_raise:{_addr(op)}:{type(raised).__name__}", case,
                         f"{op} raised {raised!r} where a list holding {m!r} would succeed")
                return
            if not isinstance(raised, outcome):
                ctx.fail(f"{op[0]}:wrong_exception:{_addr(op)}:{_oname(outcome)}->{type(raised).__name__}", case,
                         f"{op} raised {raised!r}, expected {_oname(outcome)}")
                return
            # state must be unchanged
            if not check_obs(op, "changed_on_raise"):
                return
            if op[0] in WRITE_OPS:
                saw_failing_write = True
        else:
            if outcome != "ok":
                ctx.fail(f"{op[0]}:missing_raise:{_addr(op)}:{_oname(outcome)}", case,
                         f"{op} returned {got!r} on {m!r}; expected {_oname(outcome)}")
                return
            m = new_m
            if op[0] in CONTAINER_RESULT:
                if not isinstance(got, KL):
                    ctx.fail(f"{op[0]}:result_type", case, f"{op} returned {type(got).__name__}")
                    return
                if list(got) != value:
                    ctx.fail(f"{op[0]}:result:{_addr(op)}", case, f"{op} returned {list(got)!r}, expected {value!r}")
                    return
                # the result obeys the same rule under the same key function
                if model_observe(u, value) != observe(u, got):
                    ctx.fail(f"{op[0]}:result_index", case, f"{op}: result container's key index disagrees with its items")
                    return
            elif op[0] in WRITE_OPS and op[0] != "pop":
                if got is not None:
                    ctx.fail(f"{op[0]}:result", case, f"{op} returned {got!r}")
                    return
            elif got != value:
                ctx.fail(f"{op[0]}:result:{_addr(op)}", case, f"{op} returned {got!r}, expected {value!r}")
                return
            if not check_obs(op, "state"):
                return
        if _addr(op) != "pos":
            saw_addr = True
        maxlen = max(maxlen, len(m))
        ctx.count(f"op:{op[0]}:{'raise' if raised is not None else 'ok'}")
    nontrivial = maxlen >= 2 and (saw_failing_write or saw_addr)
    ctx.case(case, nontrivial)


# ---------------------------------------------------------------------------
# Enumeration of ops available in a state


def all_ops(u, typed, n, small=False):
    """Every single op for a container of current length n."""
    idx = list(range(-n - 2, n + 3))
    encs = u.all_encs()
    items = list(encs)
    if typed:
        items += [["bad", j] for j in range(len(u.bad_items()))]
    ops = []
    for i in idx:
        ops.append(["getitem_idx", i])
        ops.append(["delitem_idx", i])
        ops.append(["pop", i])
        for it in items:
            ops.append(["setitem_idx", i, it])
            ops.append(["insert", i, it])
    ops.append(["pop", None])
    for ki in range(u.nkeys):
        ops.append(["getitem_key", ki])
        ops.append(["delitem_key", ki])
        for it in items:
            ops.append(["setitem_key", ki, it])
    for it in items:
        ops.append(["append", it])
        ops.append(["remove", it])
        ops.append(["index", it])
    pairs = [[a] for a in items] + ([[a, b] for a in items[:4] for b in items[:4]] if not small else [[items[0], items[-1]]])
    for p in pairs + [[]]:
        ops.append(["extend", p])
        ops.append(["iadd", p])
        if not any(e[0] == "bad" for e in p):
            ops.append(["add", p])
            ops.append(["radd", p])
    for sl in ([None, None, None], [1, None, None], [None, -1, None], [None, None, -1], [0, 2, None], [None, None, 2]):
        ops.append(["getitem_slice", sl])
    ops.append(["setitem_slice", [0, 1, None], [items[0]]])
    ops.append(["delitem_slice", [0, 1, None]])
    ops += [["reverse"], ["clear"], ["iter"]]
    return ops


def containers(u, maxn):
    encs = u.all_encs()
    for n in range(maxn + 1):
        for keys in itertools.permutations(range(u.nkeys), n):
            for ps in itertools.product(u.payloads, repeat=n):
                yield [[k, p] for k, p in zip(keys, ps)]


# ---------------------------------------------------------------------------
# Work units

BOUNDS = {
    # tier: (nkeys, max items for 1-op, max items for 2-op, hypothesis examples per unit, units)
    "quick": dict(nkeys=3, n1=3, n2=0, examples=300, hyp_units=16),
    "thorough": dict(nkeys=4, n1=4, n2=1, examples=4000, hyp_units=32),
}


def units(tier, seed):
    b = BOUNDS[tier]
    out = []
    for uname in universes(b["nkeys"]):
        for typed in (False, True):
            out.append(["enum1", uname, typed])
            for shard in range(4 if tier == "thorough" else 1):
                out.append(["enum2", uname, typed, shard, 4 if tier == "thorough" else 1])
    out.append(["keyfault", "tuple"])
    out.append(["keyfault", "tupleint"])
    out.append(["slice_chain"])
    out.append(["stale_key"])
    for i in range(b["hyp_units"]):
        out.append(["hyp", i])
    if tier == "thorough":
        for i in range(8):
            out.append(["fuzz", i])
    return out


def op_strategy(u, typed):
    encs = u.all_encs()
    items = [st.sampled_from(encs)]
    if typed:
        items.append(st.sampled_from([["bad", j] for j in range(len(u.bad_items()))]))
    item = st.one_of(*items)
    idx = st.integers(-7, 7)
    ki = st.integers(0, u.nkeys - 1)
    sl = st.tuples(st.none() | st.integers(-5, 5), st.none() | st.integers(-5, 5), st.sampled_from([None, 1, 2, -1])).map(list)
    few = st.lists(item, max_size=3)
    fewgood = st.lists(st.sampled_from(encs), max_size=3)
    return st.one_of(
        st.tuples(st.just("getitem_idx"), idx),
        st.tuples(st.just("getitem_key"), ki),
        st.tuples(st.just("getitem_slice"), sl),
        st.tuples(st.just("setitem_idx"), idx, item),
        st.tuples(st.just("setitem_idx"), idx, item),
        st.tuples(st.just("setitem_key"), ki, item),
        st.tuples(st.just("delitem_idx"), idx),
        st.tuples(st.just("delitem_key"), ki),
        st.tuples(st.just("insert"), idx, item),
        st.tuples(st.just("insert"), idx, item),
        st.tuples(st.just("append"), item),
        st.tuples(st.just("append"), item),
        st.tuples(st.just("extend"), few),
        st.tuples(st.just("iadd"), few),
        st.tuples(st.just("add"), fewgood),
        st.tuples(st.just("radd"), fewgood),
        st.tuples(st.just("pop"), st.none() | idx),
        st.tuples(st.just("remove"), item),
        st.tuples(st.just("index"), item),
        st.tuples(st.just("reverse")),
        st.tuples(st.just("clear")),
        st.tuples(st.just("iter")),
        st.tuples(st.just("setitem_slice"), sl, few),
        st.tuples(st.just("delitem_slice"), sl),
    ).map(list)


@st.composite
def case_strategy(draw, nkeys):
    us = universes(nkeys)
    uname = draw(st.sampled_from(sorted(us)))
    u = us[uname]
    typed = draw(st.booleans())
    keys = draw(st.permutations(range(u.nkeys)))
    n = draw(st.integers(0, u.nkeys))
    init = [[k, draw(st.sampled_from(u.payloads))] for k in keys[:n]]
    ops = draw(st.lists(op_strategy(u, typed), min_size=1, max_size=25))
    return {"universe": uname, "nkeys": nkeys, "typed": typed, "init": init, "ops": ops}


def run_unit(ctx, unit):
    b = BOUNDS[ctx.tier]
    kind = unit[0]
    if kind == "enum1":
        u = universes(b["nkeys"])[unit[1]]
        for init in containers(u, b["n1"]):
            for op in all_ops(u, unit[2], len(init)):
                run_case(ctx, {"universe": unit[1], "nkeys": b["nkeys"], "typed": unit[2], "init": init, "ops": [op]})
        ctx.count("enum1_units_completed")
    elif kind == "enum2":
        u = universes(b["nkeys"])[unit[1]]
        shard, nshards = unit[3], unit[4]
        j = 0
        for init in containers(u, b["n2"]):
            for op1 in all_ops(u, unit[2], len(init), small=True):
                if op1[0] not in WRITE_OPS:
                    continue  # reads are covered by the observation after every step
                j += 1
                if j % nshards != shard:
                    continue
                # the length after op1 is at most len(init)+2
                for op2 in all_ops(u, unit[2], len(init) + 1, small=True):
                    run_case(ctx, {"universe": unit[1], "nkeys": b["nkeys"], "typed": unit[2], "init": init, "ops": [op1, op2]})
        ctx.count("enum2_units_completed")
    elif kind == "hyp":
        run_given(
            ctx,
            lambda case: run_case(ctx, case),
            {"case": case_strategy(b["nkeys"])},
            b["examples"],
            ctx.seed * 1000 + unit[1],
        )
    elif kind == "keyfault":
        run_keyfault(ctx, unit[1], b)
    elif kind == "slice_chain":
        run_slice_chain(ctx, b)
    elif kind == "stale_key":
        run_stale_key(ctx, b)
    elif kind == "fuzz":
        from vf.fuzz import common

        common.run_fuzz_unit(ctx, "c13", unit[1], decode_bytes, run_case, runs=60000)
    else:
        raise AssertionError(unit)


class KeyFault(Exception):
    pass


class FaultyKey:
    """The user's key function, failing on its n-th call (None: never)."""

    def __init__(self, fn):
        self.fn, self.calls, self.fail_at = fn, 0, None

    def __call__(self, item):
        self.calls += 1
        if self.fail_at is not None and self.calls == self.fail_at:
            raise KeyFault(f"key function failed on call {self.calls}")
        return self.fn(item)


def keyfault_case(ctx, case, before=None):
    KL = env()["KeyedList"]
    u = universes(case["nkeys"])[case["universe"]]
    init, op, n = case["init"], case["ops"][0], case["fault"]
    kf = FaultyKey(u.keyfn())
    real = KL([u.item(e) for e in init], key=kf)
    if before is None:
        before = observe(u, real)
    kf.calls, kf.fail_at = 0, n
    try:
        real_apply(u, real, op)
        raised = False
    except KeyFault:
        raised = True
    except (KeyError, ValueError, IndexError, TypeError):
        raised = False  # the operation's own refusal came first
    kf.fail_at = None
    if raised:
        try:
            after = observe(u, real)
        except Exception as e:  # an incoherent container may not even be observable
            after = {"unobservable": repr(e)}
        if after != before:
            diff = [k for k in before if after.get(k) != before[k]] if "unobservable" not in after else ["unobservable"]
            ctx.fail(f"keyfault:{op[0]}:changed_on_raise", case, f"{op} with the key function failing on its call #{n}: raised, but the container changed in {diff}: {after if 'unobservable' in after else ''}")
            return False
        ctx.count("keyfault:raised_unchanged")
    ctx.case(case, raised)
    return True


def run_keyfault(ctx, uname, b):
    """An operation that raises leaves the container exactly as it was - also when what raises is the user's key function,
    at any of its invocations inside the operation (every write op from every container of <= 2 items)."""
    KL = env()["KeyedList"]
    u = universes(b["nkeys"])[uname]
    for init in containers(u, 2):
        for op in all_ops(u, False, len(init), small=True):
            if op[0] not in WRITE_OPS or op[0] in ("setitem_slice", "delitem_slice"):
                continue
            case = {"universe": uname, "nkeys": b["nkeys"], "typed": False, "init": init, "ops": [op], "keyfault": True}
            kf = FaultyKey(u.keyfn())
            real = KL([u.item(e) for e in init], key=kf)
            before = observe(u, real)
            kf.calls = 0
            try:
                real_apply(u, real, op)
            except (KeyError, ValueError, IndexError, TypeError):
                pass
            total = kf.calls
            for n in range(1, total + 1):
                if not keyfault_case(ctx, dict(case, fault=n), before):
                    return
    ctx.count("keyfault_units_completed")


def run_stale_key(ctx, b):
    """A keyed spec-class item whose key attribute was changed behind the container's back (a user may do that): whatever the
    container then refuses, it refuses before touching either of its two representations."""
    KL = env()["KeyedList"]
    It = env()["It"]
    for op in (["delitem_idx", 0], ["setitem_idx", 0, "new"], ["pop", 0], ["delitem_idx", 1], ["remove", 0]):
        case = {"universe": "spec", "stale_key": True, "ops": [op]}
        real = KL([It("a", v=0), It("b", v=1)])
        real[0].k = "zz"  # the stored item's key no longer matches the index entry 'a'
        lst_before, keys_before = [id(x) for x in real], sorted(real.keys())
        try:
            if op[0] == "delitem_idx":
                del real[op[1]]
            elif op[0] == "setitem_idx":
                real[op[1]] = It("n", v=9)
            elif op[0] == "pop":
                real.pop(op[1])
            else:
                real.remove(real[op[1]])
            raised = False
        except (KeyError, ValueError):
            raised = True
        if raised and ([id(x) for x in real], sorted(real.keys())) != (lst_before, keys_before):
            ctx.fail(f"stale_key:{op[0]}:changed_on_raise", case, f"{op} raised, but the container changed: list {len(lst_before)} -> {len(real)} items, keys {keys_before} -> {sorted(real.keys())}")
            return
        ctx.case(case, raised)
    ctx.count("stale_key_completed")


def run_slice_chain(ctx, b):
    """Index and slice reads, repeated: a long chain of slice reads keeps working (and keeps the key function)."""
    for uname, u in universes(b["nkeys"]).items():
        real, items = build(u, False, [e for e in u.all_encs()][:1] + [e for e in u.all_encs() if u.key_of_enc(e) != u.key_of_enc(u.all_encs()[0])][:1])
        case = {"universe": uname, "nkeys": b["nkeys"], "typed": False, "init": [], "ops": [], "slice_chain": 1500}
        cur = real
        try:
            for _ in range(1500):
                cur = cur[:]
            obs = observe(u, cur)
        except RecursionError as e:
            ctx.fail("slice_chain:recursion", case, f"l = l[:] repeated 1500 times, then reading: {e!r}")
            return
        if obs != observe(u, real):
            ctx.fail("slice_chain:differs", case, "the 1500th slice copy differs from the original container")
            return
        ctx.case(case, True)
    ctx.count("slice_chain_completed")


def coverage_extra(tier, counters):
    b = BOUNDS[tier]
    return {
        "exhaustive": True,
        "exhaustive_scope": f"every single op from every container of <= {b['n1']} items over {b['nkeys']} keys x 6 universes x typed/untyped; "
        f"every (write, any) 2-op sequence from containers of <= {b['n2']} items; Hypothesis op lists (<= 25 ops) beyond",
    }


# ---------------------------------------------------------------------------
# byte decoding for the atheris target


def decode_bytes(data: bytes):
    if len(data) < 4:
        return None
    nkeys = 4
    names = sorted(universes(nkeys))
    uname = names[data[0] % len(names)]
    u = universes(nkeys)[uname]
    typed = bool(data[1] & 1)
    n = data[2] % (nkeys + 1)
    perm = list(itertools.permutations(range(nkeys)))[data[3] % 24]
    init = [[k, u.payloads[(data[3] >> 3) % len(u.payloads)]] for k in perm[:n]]
    ops = []
    encs = u.all_encs()
    body = data[4:]
    names_ops = ["getitem_idx", "getitem_key", "setitem_idx", "setitem_key", "delitem_idx", "delitem_key", "insert",
                 "append", "extend", "iadd", "add", "radd", "pop", "remove", "reverse", "clear", "index", "getitem_slice"]
    i = 0
    while i + 3 <= len(body) and len(ops) < 30:
        o, a, c = body[i], body[i + 1], body[i + 2]
        i += 3
        name = names_ops[o % len(names_ops)]
        idx = (a % 15) - 7
        it = encs[c % len(encs)]
        if typed and c >= 240:
            it = ["bad", c % len(u.bad_items())]
        ki = a % nkeys
        if name in ("getitem_idx", "delitem_idx"):
            ops.append([name, idx])
        elif name in ("getitem_key", "delitem_key"):
            ops.append([name, ki])
        elif name in ("setitem_idx", "insert"):
            ops.append([name, idx, it])
        elif name == "setitem_key":
            ops.append([name, ki, it])
        elif name in ("append", "remove", "index"):
            ops.append([name, it])
        elif name in ("extend", "iadd", "add", "radd"):
            if name in ("add", "radd") and it[0] == "bad":
                it = encs[c % len(encs)]
            ops.append([name, [it, encs[a % len(encs)]][: 1 + (a & 1)]])
        elif name == "pop":
            ops.append([name, None if a >= 128 else idx])
        elif name == "getitem_slice":
            ops.append([name, [None if a & 1 else idx, None if c & 1 else (c % 9) - 4, [None, 1, 2, -1][(c >> 1) % 4]]])
        else:
            ops.append([name])
    if not ops:
        return None
    return {"universe": uname, "nkeys": nkeys, "typed": typed, "init": init, "ops": ops}


def replay(ctx, case):
    if case.get("keyfault"):
        keyfault_case(ctx, case)
    elif case.get("slice_chain"):
        run_slice_chain(ctx, BOUNDS["quick"])
    elif case.get("stale_key"):
        run_stale_key(ctx, BOUNDS["quick"])
    else:
        run_case(ctx, case)
