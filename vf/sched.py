"""
Deterministic cooperative thread scheduler.

Real threading.Thread objects are serialised with per-thread semaphores: exactly one thread holds the baton.
A thread runs until a *yield point* - a `line` (optionally `opcode`) trace event in one of the anchored files -
where the schedule may say "switch to thread k". Library locks are replaced (module-global rebinding of the
names RLock / Lock in spec_classes modules, done before the classes / singletons under test are created) by a
cooperative lock whose acquire() yields to the scheduler instead of blocking, so the scheduler always knows
who is runnable and reports a deadlock instead of hanging. A watchdog turns a stall into a harness error.

A schedule is a list of [step, target] pairs: at global yield step `step`, switch to thread `target`
(ignored if that thread is not runnable). It is plain data: drawn by Hypothesis or enumerated.
"""

from __future__ import annotations

import os
import sys
import threading
import time

_REAL_RLOCK = threading.RLock
_REAL_LOCK = threading.Lock


class HarnessStall(Exception):
    """The scheduler lost track of the threads (never a property violation)."""


class Deadlock(Exception):
    pass


class _T:
    def __init__(self, idx, fn):
        self.idx = idx
        self.fn = fn
        self.sem = threading.Semaphore(0)
        self.state = "ready"  # ready | blocked | done
        self.waiting_for = None
        self.result = None
        self.error = None
        self.thread = None


class Scheduler:
    def __init__(self, schedule=(), files=(), opcode_functions=(), max_steps=200000, timeout=20.0):
        self.schedule = {int(s): int(t) for s, t in schedule}
        self.files = tuple(files)
        self.opcode_functions = set(opcode_functions)
        self.max_steps = max_steps
        self.timeout = timeout
        self.threads = []
        self.step = 0
        self.current = None
        self.switches = []  # (step, from, to, where, holders) actually taken
        self.done = threading.Event()
        self.deadlock = None
        self.locks = []
        self.fatal = None
        self.trace_positions = []  # where each step happened (only kept when record=True)
        self.record = False
        self.in_critical = {}  # thread idx -> depth inside "critical" functions (for non-triviality)
        self.critical_functions = set()
        self.only_functions = None  # when set: yield points only at the lines of functions with these names
        self.preempted_inside_critical = False

    # -- lock factory -------------------------------------------------------
    def make_rlock(self):
        lock = CoopRLock(self)
        self.locks.append(lock)
        return lock

    # -- running --------------------------------------------------------------
    def run(self, fns):
        self.threads = [_T(i, fn) for i, fn in enumerate(fns)]
        for t in self.threads:
            t.thread = threading.Thread(target=self._body, args=(t,), daemon=True)
            t.thread.start()
        self.current = 0
        self.threads[0].sem.release()
        if not self.done.wait(self.timeout):
            self.fatal = self.fatal or "timeout: scheduler stalled (a thread blocked outside the scheduler's knowledge?)"
            raise HarnessStall(self.fatal)
        for t in self.threads:
            t.thread.join(1.0)
        if self.fatal:
            raise HarnessStall(self.fatal)
        return self.threads

    def _me(self):
        ident = threading.get_ident()
        for t in self.threads:
            if t.thread is not None and t.thread.ident == ident:
                return t
        return None

    def _body(self, t):
        t.sem.acquire()
        sys.settrace(self._global_trace)
        try:
            t.result = t.fn()
        except Deadlock as e:
            t.error = e
        except BaseException as e:  # the oracle decides what an exception in a thread means
            t.error = e
        finally:
            sys.settrace(None)
            self._finish(t)

    def _finish(self, t):
        t.state = "done"
        nxt = self._pick_runnable(exclude=t)
        if nxt is None:
            if any(x.state == "blocked" for x in self.threads):
                self.deadlock = [(x.idx, x.waiting_for) for x in self.threads if x.state == "blocked"]
                # wake blocked threads so that they can raise Deadlock and terminate
                for x in self.threads:
                    if x.state == "blocked":
                        x.state = "ready"
                        self.current = x.idx
                        x.sem.release()
                        return
            self.done.set()
            return
        self.current = nxt.idx
        nxt.sem.release()

    def _pick_runnable(self, exclude=None):
        for x in self.threads:
            if x is not exclude and x.state == "ready":
                return x
        return None

    def _switch(self, me, target, where):
        holders = [l.owner for l in self.locks if l.owner is not None]
        self.switches.append((self.step, me.idx, target.idx, where, holders))
        if any(self.in_critical.get(x.idx, 0) > 0 for x in self.threads if x is not target) or holders:
            self.preempted_inside_critical = True
        self.current = target.idx
        target.sem.release()
        me.sem.acquire()

    # -- tracing --------------------------------------------------------------
    def _global_trace(self, frame, event, arg):
        fn = frame.f_code.co_filename
        if fn.endswith(self.files):
            if self.only_functions is not None and frame.f_code.co_name not in self.only_functions:
                return None
            if frame.f_code.co_name in self.opcode_functions:
                frame.f_trace_opcodes = True
            if frame.f_code.co_name in self.critical_functions:
                me = self._me()
                if me is not None:
                    self.in_critical[me.idx] = self.in_critical.get(me.idx, 0) + 1
            return self._local_trace
        return None

    def _local_trace(self, frame, event, arg):
        if event == "line" or event == "opcode":
            self.yield_point(f"{os.path.basename(frame.f_code.co_filename)}:{frame.f_lineno}:{frame.f_code.co_name}")
        elif event == "return" and frame.f_code.co_name in self.critical_functions:
            me = self._me()
            if me is not None:
                self.in_critical[me.idx] = max(0, self.in_critical.get(me.idx, 0) - 1)
        return self._local_trace

    def yield_point(self, where=""):
        me = self._me()
        if me is None or self.current != me.idx:
            return
        self.step += 1
        if self.record:
            self.trace_positions.append((me.idx, where))
        if self.step > self.max_steps:
            self.fatal = "max_steps exceeded"
            raise HarnessStall(self.fatal)
        target = self.schedule.get(self.step)
        if target is not None and target != me.idx and 0 <= target < len(self.threads) and self.threads[target].state == "ready":
            self._switch(me, self.threads[target], where)

    # -- cooperative blocking -----------------------------------------------
    def block(self, me, lock):
        me.state = "blocked"
        me.waiting_for = lock
        nxt = self._pick_runnable(exclude=me)
        if nxt is None:
            me.state = "ready"
            self.deadlock = [(x.idx, id(x.waiting_for)) for x in self.threads if x.state == "blocked"] + [(me.idx, id(lock))]
            raise Deadlock(f"all threads blocked: {self.deadlock}")
        self.switches.append((self.step, me.idx, nxt.idx, "blocked-on-lock", [l.owner for l in self.locks if l.owner is not None]))
        self.current = nxt.idx
        nxt.sem.release()
        me.sem.acquire()
        if self.deadlock:
            raise Deadlock(f"deadlock: {self.deadlock}")

    def wake(self, lock):
        for x in self.threads:
            if x.state == "blocked" and x.waiting_for is lock:
                x.state = "ready"
                x.waiting_for = None


class CoopRLock:
    """Re-entrant lock that cooperates with the scheduler (falls back to a real RLock outside scheduled threads)."""

    def __init__(self, sched):
        self.sched = sched
        self.owner = None
        self.count = 0
        self._real = _REAL_RLOCK()

    def acquire(self, blocking=True, timeout=-1):
        me = self.sched._me()
        if me is None:
            return self._real.acquire(blocking, timeout)
        while True:
            if self.owner is None or self.owner == me.idx:
                self.owner = me.idx
                self.count += 1
                return True
            if not blocking:
                return False
            self.sched.block(me, self)

    def release(self):
        me = self.sched._me()
        if me is None:
            return self._real.release()
        if self.owner != me.idx:
            raise RuntimeError("cannot release un-acquired lock")
        self.count -= 1
        if self.count == 0:
            self.owner = None
            self.sched.wake(self)

    __enter__ = acquire

    def __exit__(self, *a):
        self.release()


class LockPatch:
    """Rebinds the module-global names RLock / Lock of spec_classes modules to scheduler-aware factories.
    `current` can be re-pointed at a new Scheduler for every run; locks made outside a run are real locks."""

    def __init__(self):
        self.current = None
        self.patched = []

    def factory(self, *a, **k):
        if self.current is not None:
            return self.current.make_rlock()
        return _REAL_RLOCK()

    def install(self):
        import spec_classes  # noqa: F401

        for name, mod in list(sys.modules.items()):
            if not name.startswith("spec_classes") or mod is None:
                continue
            for attr in ("RLock", "Lock"):
                if getattr(mod, attr, None) in (_REAL_RLOCK, _REAL_LOCK):
                    self.patched.append((mod, attr, getattr(mod, attr)))
                    setattr(mod, attr, self.factory)
        return self

    def swap_live_locks(self, sched, prefix="spec_classes", depth=3):
        """Replace every *existing* real lock reachable from the library's module globals (module-level locks, class
        attributes, attributes of module-level / singleton objects, values of module-level dicts) by a cooperative
        lock of `sched`. Returns an undo callable. This makes the harness independent of where the library keeps
        its locks (a refactoring that moves a lock elsewhere must not turn into a harness stall)."""
        lock_types = (type(_REAL_RLOCK()), type(_REAL_LOCK()))
        undo, seen = [], set()

        def own(obj):
            return (getattr(type(obj), "__module__", "") or "").startswith(prefix)

        def visit(obj, d):
            if id(obj) in seen or d > depth:
                return
            seen.add(id(obj))
            if isinstance(obj, dict):
                items = list(obj.items())
                setter = obj.__setitem__
            elif isinstance(obj, type):
                items = [(k, v) for k, v in vars(obj).items()]
                setter = lambda k, v, o=obj: setattr(o, k, v)
            elif hasattr(obj, "__dict__") and isinstance(getattr(obj, "__dict__", None), dict):
                items = list(obj.__dict__.items())
                setter = lambda k, v, o=obj: o.__dict__.__setitem__(k, v)
            else:
                return
            for k, v in items:
                if isinstance(v, lock_types):
                    try:
                        setter(k, sched.make_rlock())
                        undo.append((setter, k, v))
                    except Exception:
                        pass
                elif isinstance(v, CoopRLock):
                    # a lock made by the factory for an earlier run: re-point it at this run's scheduler
                    if v.sched is not sched:
                        new = sched.make_rlock()
                        try:
                            setter(k, new)
                            undo.append((setter, k, v))
                        except Exception:
                            pass
                elif isinstance(v, type):
                    if (getattr(v, "__module__", "") or "").startswith(prefix):
                        visit(v, d + 1)
                elif isinstance(v, dict) and not isinstance(obj, type) or own(v):
                    visit(v, d + 1)

        for name, mod in list(sys.modules.items()):
            if name.startswith(prefix) and mod is not None:
                visit(vars(mod), 0)

        def restore():
            for setter, k, v in reversed(undo):
                try:
                    setter(k, v)
                except Exception:
                    pass

        return restore

    def uninstall(self):
        for mod, attr, orig in self.patched:
            setattr(mod, attr, orig)
        self.patched = []
