"""
C16 - decoration adds exactly the documented helpers and never replaces user code.

Oracle: vars(cls) before decoration vs after bootstrap and after first use of every helper (through the class
and through an instance): every pre-existing entry is the identical object; __spec_class_init__/repr/eq exist
and work; the set of helper names equals the set computed by an independent naming function (hand-verified
singular forms); no helper for private or skipped attributes; for colliding names bootstrap raises RuntimeError
or all (attribute, role) pairs get distinct names and each element helper changes only its own attribute.
"""
from __future__ import annotations

import itertools
import typing

from hypothesis import strategies as st

from vf import grammar
from vf.runner import run_given

ID = "C16"
LEVEL = "exploration"
RULE = (
    "cases = (class definition: 1-4 attributes from a naming pool with hand-verified singular forms incl. colliding singular/plural pairs, scalar or "
    "List/Dict/Set typed; selection through annotations / attrs / attrs_typed / attrs_skip; init/repr/eq switches; a private attribute; lazy or eager; "
    "user-defined __init__/__repr__/__eq__; optionally ONE expected helper name defined in the class body as function / staticmethod / property / plain value). "
    "Enumerated over the attribute sets x options x (every expected helper name x 4 kinds); Hypothesis adds random combinations. Non-trivial = the class has an "
    "occupied generated name or a colliding pair; distinct = canonical JSON of the class definition."
)
ASSUMPTIONS = [
    "overriding __getattr__/__setattr__/__delattr__/__deepcopy__ is documented as unsupported and not generated",
    "names defined only in a base class are not 'the class's own body'",
    "__annotations__ may gain entries (documented: annotations are made consistent with attrs_typed)",
]

# hand-verified (English) singular forms; None = no distinct singular -> '<attr>_item'
SINGULAR = {"items": "item", "boxes": "box", "children": "child", "data": "datum", "sheep": None, "foos": "foo", "foo": None, "values": "value",
            "entries": "entry", "keys": "key", "nums": "num", "names": "name", "men": "man", "leaves": "leaf", "a_items": "a_item", "a": None, "item": None,
            "item_item": None, "items_item": None, "extras": "extra", "x": None, "xs": "x", "child": None, "lines": "line", "line": None, "lines_items": "lines_item"}
SCALAR_VERBS = ["with", "update", "transform", "reset"]
ELEM_VERBS = ["with", "update", "transform", "without"]
TOP = ["update", "transform", "reset"]

ATTR_SETS = [
    [("count", "int")],
    [("items", "list")],
    [("items", "list"), ("count", "int")],
    [("boxes", "dict"), ("keys", "set")],
    [("children", "list"), ("data", "dict"), ("sheep", "set")],
    [("items", "list"), ("item", "int")],                     # singular equals another attribute -> items_item
    [("items", "list"), ("item", "int"), ("items_item", "int")],   # fallback taken too -> RuntimeError
    [("a", "list"), ("a_items", "list")],                     # two collections with one singular
    [("xs", "list"), ("x", "int")],
    [("foos", "list"), ("foo", "list")],                      # foo (collection) -> foo_item; foos -> foo collides with attribute foo -> foos_item
    [("item", "list"), ("item_item", "int")],                 # item -> item_item collides with attribute, fallback item_item again -> RuntimeError
    [("names", "list"), ("values", "dict"), ("count", "int"), ("foo", "int")],
    [("lines_items", "list"), ("lines", "list"), ("line", "int")],   # fallback 'lines_item' already claimed as a singular -> RuntimeError
    [("lines", "list"), ("lines_items", "list"), ("line", "int")],   # same attributes, other order
]
TYPES = {"int": int, "list": typing.List[int], "dict": typing.Dict[str, int], "set": typing.Set[int]}
DEFAULTS = {"int": 1, "list": [1], "dict": {"k": 1}, "set": {1}}


def expected_names(attrs):
    """independent naming: returns (names: {helper name: (attr, role)}, error: bool)"""
    managed = [a for a, _ in attrs]
    names = {}
    for a in managed:
        for v in SCALAR_VERBS:
            names[f"{v}_{a}"] = (a, f"scalar:{v}")
    claimed = set()
    for a, t in attrs:
        if t == "int":
            continue
        s = SINGULAR[a] or f"{a}_item"
        if s in managed or s in claimed:
            s = f"{a}_item"
            if s in managed or s in claimed:
                return None, True
        claimed.add(s)
        for v in ELEM_VERBS:
            n = f"{v}_{s}"
            if n in names:
                return names, "shadow"  # would shadow another helper: never acceptable
            names[n] = (a, f"elem:{v}")
    for t in TOP:
        names[t] = (None, f"top:{t}")
    return names, False


def make_class(case):
    from spec_classes import spec_class

    attrs = [tuple(a) for a in case["attrs"]]
    ns = {"__module__": "vf.generated"}
    ann = {}
    select = case["select"]
    mixed = select in MIXED
    for i, (a, t) in enumerate(attrs):
        if select in ("annotations", "skip") or (mixed and i > 0):
            ann[a] = TYPES[t]
        if case["defaults"]:
            ns[a] = DEFAULTS[t].copy() if hasattr(DEFAULTS[t], "copy") else DEFAULTS[t]
    if case["private"]:
        ann["_hidden"] = int
        ns["_hidden"] = 3
    if case.get("prep_scalars"):
        # every scalar attribute has a preparer; where a collection's singular form had to fall back because it equals such an
        # attribute's name, that preparer still belongs to the scalar attribute only
        for a, t in effective(case):  # (managed attributes only: for an unmanaged name `_prepare_<name>` IS the element preparer)
            if t == "int" and (a, "int") in attrs:
                ns[f"_prepare_{a}"] = lambda self, v: v + 1000 if isinstance(v, int) and not isinstance(v, bool) else v
    if select == "skip" or select.endswith("+skip1"):
        ann["skipped"] = int
        ns["skipped"] = 0
    sentinel = {}
    for name, kind in case["occupied"]:
        if kind == "function":
            def user(self, *a, **k):
                return "user"
            user.__name__ = name
            ns[name] = user
        elif kind == "staticmethod":
            ns[name] = staticmethod(lambda *a, **k: "user")
        elif kind == "property":
            ns[name] = property(lambda self: "user")
        elif kind == "none":
            ns[name] = None  # opting out of a helper, like __hash__ = None
        elif kind == "false":
            ns[name] = False
        elif kind == "zero":
            ns[name] = 0
        else:
            ns[name] = 12345
    for name in case["user_dunders"]:
        if name == "__init__":
            def __init__(self, **kw):
                self.__spec_class_init__(**kw)
                self.user_init_ran = True
            ns[name] = __init__
        elif name == "__repr__":
            ns[name] = lambda self: "user-repr"
        elif name == "__eq__":
            ns[name] = lambda self, other: self is other
        elif name == "__new__":
            def __new__(cls, *a, **k):
                inst = object.__new__(cls)
                object.__setattr__(inst, "user_new_ran", True)
                return inst
            ns[name] = __new__
    if ann:
        ns["__annotations__"] = ann
    cls = type("K", (), ns)
    pre = dict(vars(cls))
    opts = {"bootstrap": case["eager"]}
    for sw in ("init", "repr", "eq"):
        if sw in case["switches_off"]:
            opts[sw] = False
    if case.get("overflow"):
        opts["init_overflow_attr"] = OVERFLOW
    if case.get("key") == "private" and case["private"]:
        opts["key"] = "_hidden"  # a key that is not a managed attribute (private): it still gets no helpers
    elif case.get("key") == "skipped" and (select == "skip" or select.endswith("+skip1")):
        opts["key"] = "skipped"  # ... nor does a key listed in attrs_skip
    if select == "attrs":
        opts["attrs"] = [a for a, _ in attrs]
        if case.get("one_shot"):
            opts["attrs"] = (a for a in list(opts["attrs"]))  # documented as Iterable[str]: a generator is one
    elif select == "attrs_typed":
        opts["attrs_typed"] = {a: TYPES[t] for a, t in attrs}
    elif select == "skip":
        opts["attrs_skip"] = ["skipped"]
    elif mixed:
        # documented: attrs / attrs_typed alone REPLACE the annotated attributes; together with a (potentially empty)
        # attrs_skip iterable they are incremental on top of them
        a0, t0 = attrs[0]
        if select.startswith("attrs_typed"):
            opts["attrs_typed"] = {a0: TYPES[t0]}
            if select == "attrs_typed_both_only_first":
                opts["attrs"] = [a0]  # nominated in both: the type given in attrs_typed is the attribute's type
        else:
            opts["attrs"] = iter([a0]) if case.get("one_shot") else [a0]
        if select.endswith("+skip0"):
            opts["attrs_skip"] = [(), [], set(), frozenset()][len(attrs) % 4]
        elif select.endswith("+skip1"):
            opts["attrs_skip"] = ["skipped"]
    return cls, pre, opts


MIXED = ("attrs+skip0", "attrs+skip1", "attrs_typed+skip0", "attrs_typed+skip1", "attrs_only_first", "attrs_typed_only_first", "attrs_typed_both_only_first")


def effective(case):
    """The managed attributes with the type family their helpers are generated for."""
    out = _effective(case)
    if case.get("overflow"):
        out = out + [(OVERFLOW, "dict")]  # documented: the overflow attribute is a managed Dict[str, Any] attribute
    return out


OVERFLOW = "extras"


def _effective(case):
    attrs = [tuple(a) for a in case["attrs"]]
    select = case["select"]
    if select == "attrs":  # with `attrs=` every attribute is typed Any (no collection helpers)
        return [(a, "int") for a, t in attrs]
    if select in MIXED:
        first = (attrs[0][0], attrs[0][1] if select.startswith("attrs_typed") else "int")
        return [first] + ([] if select.endswith("_only_first") else attrs[1:])
    return attrs


IGNORED = {"__dict__", "__weakref__", "__doc__", "__annotations__", "__module__"}


NEW_VALUE = {"int": 7, "list": [7], "dict": {"z": 7}, "set": {7}}


def run_split(ctx, case):
    """The attributes are split over a spec parent (first k) and a spec child (the rest): a singular / plural collision
    across the two levels is resolved in the child exactly as within one class, and never disturbs the parent."""
    from spec_classes import spec_class

    attrs = [tuple(a) for a in case["attrs"]]
    k = case["split"]
    pa, ca = attrs[:k], attrs[k:]

    def mk(name, bases, part):
        ns = {"__module__": "vf.generated", "__annotations__": {a: TYPES[t] for a, t in part}}
        for a, t in part:
            ns[a] = DEFAULTS[t].copy() if hasattr(DEFAULTS[t], "copy") else DEFAULTS[t]
        return type(name, bases, ns)

    names_p, err_p = expected_names(pa)
    names_c, err_c = expected_names(attrs)
    alt = expected_names(ca + pa)
    if err_p is not False or err_c == "shadow" or (alt[1], {n: v[0] for n, v in (alt[0] or {}).items()}) != (err_c, {n: v[0] for n, v in (names_c or {}).items()}):
        ctx.count("split:abstained")  # the parent alone is already colliding, or the claim order (undocumented) matters
        ctx.case(case, False)
        return
    Parent = spec_class(bootstrap=case["eager"])(mk("Pk", (), pa))
    if case.get("touch_parent_first"):
        Parent.__spec_class__  # (a lazily bootstrapped class has no helpers before its first use)
        for n in names_p:
            getattr(Parent, n)
    two_bases = case.get("split_mode") == "bases"
    if two_bases:
        # the second part lives on a second, unrelated spec class; the class under test inherits from both and adds nothing
        names_q, err_q = expected_names(ca)
        if err_q is not False:
            ctx.count("split:abstained")
            ctx.case(case, False)
            return
        Parent2 = spec_class(bootstrap=case["eager"])(mk("Pq", (), ca))
    try:
        if two_bases:
            Child = spec_class(bootstrap=case["eager"])(type("K", (Parent, Parent2), {"__module__": "vf.generated"}))
        else:
            Child = spec_class(bootstrap=case["eager"])(mk("K", (Parent,), ca))
        Child.__spec_class__
        cinst = Child()
    except RuntimeError as e:
        if err_c is True:
            ctx.count("split:collision_raised")
            ctx.case(case, True)
            return
        ctx.fail("split|unexpected_runtime_error", case, f"decorating the child raised {e!r}; the naming rules allow it")
        return
    if err_c is True:
        ctx.fail("split|collision_not_detected", case, f"attributes {attrs} split {k}: singular form and fallback are both taken, but decoration succeeded")
        return

    def exercise(cls, inst, names, all_attrs, who):
        for n, (a, role) in sorted(names.items()):
            if a is None:
                continue
            if not callable(getattr(cls, n, None)):
                ctx.fail(f"split|{who}|missing|{role}", case, f"{who} class has no helper {n} (for attribute {a!r}); attributes {attrs} split {k}")
                return False
            if role not in ("elem:with", "scalar:with"):
                continue
            t = dict(all_attrs)[a]
            try:
                before = {x: repr(getattr(inst, x, None)) for x, _ in all_attrs}
                if role == "scalar:with":
                    res = getattr(inst, n)(NEW_VALUE[t])
                else:
                    res = getattr(inst, n)("z", 5) if t == "dict" else getattr(inst, n)(5)
                after = {x: repr(getattr(res, x, None)) for x, _ in all_attrs}
            except Exception as ex:
                ctx.fail(f"split|{who}|helper_broken|{role}", case, f"{who}.{n} raised {ex!r}; attributes {attrs} split {k}")
                return False
            changed = [x for x in before if before[x] != after[x]]
            if changed != [a]:
                ctx.fail(f"split|{who}|helper_targets_other_attribute|{role}", case, f"{who}.{n} belongs to {a!r} but changed {changed}; attributes {attrs} split {k}")
                return False
        return True

    if not exercise(Child, cinst, names_c, attrs, "child"):
        return
    # the parent keeps its own helper names and behaviour, whatever the child had to rename
    if not exercise(Parent, Parent(), names_p, pa, "parent"):
        return
    if two_bases and not exercise(Parent2, Parent2(), names_q, ca, "second parent"):
        return
    extra = sorted(n for n in dir(Parent) if n.split("_")[0] in ("with", "update", "transform", "reset", "without") and n not in names_p and not n.startswith("_"))
    if extra:
        ctx.fail("split|parent|extra_helpers", case, f"parent gained helpers {extra} when the child was decorated")
        return
    ctx.count("split:ok")
    ctx.case(case, _has_collision(attrs))


def run_case(ctx, case):
    from spec_classes import spec_class

    if case.get("split"):
        return run_split(ctx, case)
    attrs = [tuple(a) for a in case["attrs"]]
    select = case["select"]
    eff = effective(case)
    names, err = expected_names(eff)
    if select in MIXED and len(eff) > 1:
        # the order in which explicit and annotated attributes claim singular names is not documented: where the
        # two orders disagree (colliding singular forms) the oracle abstains
        alt = expected_names(eff[1:] + eff[:1])
        if (alt[1], set(alt[0] or {}), {k: v[0] for k, v in (alt[0] or {}).items()}) != (err, set(names or {}), {k: v[0] for k, v in (names or {}).items()}):
            ctx.count("mixed_selection_order_dependent_naming:abstained")
            ctx.case(case, False)
            return
    cls, pre, opts = make_class(case)
    occupied = dict(case["occupied"])
    try:
        decorator = spec_class(**opts)
        if case.get("reuse_decorator"):
            # one configured decorator object applied to two classes: what it learnt from the first class is not the second's
            other = decorator(type("Other", (), {"__annotations__": {"zeta": int, "omegas": typing.List[int]}, "zeta": 1, "omegas": [1], "__module__": "vf.generated"}))
            other.__spec_class__  # (bootstrap it first)
        dec = decorator(cls)
        inst = None
        try:
            inst = dec() if "__init__" not in case["switches_off"] or "__init__" in case["user_dunders"] else dec.__new__(dec)
        except (TypeError, AttributeError, ValueError):
            inst = None
        dec.__spec_class__  # force bootstrap
    except RuntimeError as e:
        if err is True:
            if not case["eager"]:
                # a lazily decorated class reports the collision at its first use - and at every later one: it must not
                # become usable (without the documented helpers) once the caller has caught the error
                for again in ("instantiate", "metadata", "instantiate"):
                    try:
                        state = dec() if again == "instantiate" else dec.__spec_class__.attrs
                    except RuntimeError:
                        continue
                    except Exception as e2:
                        ctx.fail(f"collision|second_use:{type(e2).__name__}", case, f"after the reported collision, a second {again} raised {e2!r} instead of the RuntimeError")
                        return
                    ctx.fail("collision|not_reported_again", case, f"after the reported collision ({e}), a second {again} succeeded: {state!r}; helpers present: {sorted(n for n in vars(dec) if n.startswith(('with_', 'update', 'transform', 'reset')))}")
                    return
            ctx.count("collision:raised")
            ctx.case(case, True)
            return
        ctx.fail("bootstrap|unexpected_runtime_error", case, f"decoration raised {e!r}; the naming rules allow this class")
        return
    if err is True:
        ctx.fail("collision|not_detected", case, f"attributes {attrs}: singular form and its '<attr>_item' fallback are both taken, but decoration succeeded")
        return
    if err == "shadow":
        pass  # handled below through the name->attribute check
    # first use of every helper, through the class and through an instance
    for n in list(names or {}):
        try:
            getattr(dec, n)
            if inst is not None:
                getattr(inst, n)
        except (AttributeError, TypeError):
            pass
    now = vars(dec)
    # (1) nothing the class body defined was replaced
    for n, obj in pre.items():
        if n in IGNORED:
            continue
        if n not in now or _unwrap(now[n]) is not _unwrap(obj):
            kind = occupied.get(n, "dunder" if n.startswith("__") else "attribute")
            ctx.fail(f"replaced|{kind}|{_role(names, n)}", case, f"vars(cls)[{n!r}] was {obj!r} before decoration and is {now.get(n, '<gone>')!r} after")
            return
    # (2) backups exist and work
    for n in ("__spec_class_init__", "__spec_class_repr__", "__spec_class_eq__"):
        if n not in now:
            ctx.fail(f"backup_missing|{n}", case, f"{n} is not defined on the class")
            return
    if inst is not None:
        try:
            r = inst.__spec_class_repr__()
            e = inst.__spec_class_eq__(inst)
            fresh = dec.__new__(dec)
            fresh.__spec_class_init__()
        except Exception as ex:
            ctx.fail(f"backup_broken|{type(ex).__name__}", case, f"__spec_class_* helpers raised {ex!r}")
            return
        if not (isinstance(r, str) and r.startswith("K(")) or e is not True:
            ctx.fail("backup_broken|result", case, f"__spec_class_repr__ -> {r!r}, __spec_class_eq__(self) -> {e!r}")
            return
    # (2b) occupying helper names does not break the generated constructor: keywords reach the attributes, surplus keywords
    # reach the overflow attribute, and none of the user's own definitions is run on the way
    if case["occupied"] and "init" not in case["switches_off"] and not case["user_dunders"]:
        kw = {OVERFLOW + "_zz": 1} if case.get("overflow") else {}
        first = eff[0]
        kw[first[0]] = NEW_VALUE[first[1]]
        try:
            built = dec(**kw)
            state = {a: getattr(built, a, "<unset>") for a, _ in eff}
        except Exception as ex:
            ctx.fail(f"constructor_broken|{type(ex).__name__}|{_role(names, case['occupied'][0][0])}", case,
                     f"with {case['occupied']} defined in the class body, K(**{kw}) raised {ex!r}")
            return
        want_state = {first[0]: NEW_VALUE[first[1]]}
        if case.get("prep_scalars") and first[1] == "int" and tuple(first) in attrs:
            want_state[first[0]] += 1000  # (its preparer)
        if case.get("overflow"):
            want_state[OVERFLOW] = {OVERFLOW + "_zz": 1}
        got_state = {a: state[a] for a in want_state}
        if got_state != want_state:
            ctx.fail(f"constructor_broken|state|{_role(names, case['occupied'][0][0])}", case,
                     f"with {case['occupied']} defined in the class body, K(**{kw}) built {state} (wanted {want_state})")
            return
        ctx.count("constructed_with_occupied_names")
    # (3) exactly the documented helper names (plus dunders)
    new_public = {n for n in now if n not in pre and not n.startswith("__")}
    want = {n for n in names if n not in pre}
    if new_public != want:
        extra, missing = sorted(new_public - want), sorted(want - new_public)
        ctx.fail(f"names|{'extra' if extra else 'missing'}|{_role(names, (extra or missing)[0]) if not extra else 'unexpected'}", case,
                 f"helpers added: extra {extra}, missing {missing} (attributes {attrs}, selection {select})")
        return
    for n in new_public:
        if "_hidden" in n or "skipped" in n:
            ctx.fail("names|private_or_skipped", case, f"helper {n} generated for a private / skipped attribute")
            return
    # (4) each element helper edits its own attribute only
    if inst is not None and case["defaults"]:
        for n, (a, role) in names.items():
            if role != "elem:with" or n in pre:
                continue
            t = dict(eff)[a]
            try:
                before = {x: repr(getattr(inst, x, None)) for x, _ in eff}
                res = getattr(inst, n)("k", 5) if t == "dict" else getattr(inst, n)(5)
                after = {x: repr(getattr(res, x, None)) for x, _ in eff}
            except Exception as ex:
                ctx.fail(f"helper_broken|{role}", case, f"{n} raised {ex!r}")
                return
            changed = [x for x in before if before[x] != after[x]]
            if changed != [a]:
                ctx.fail("helper_targets_other_attribute", case, f"{n} belongs to {a!r} but changed {changed}")
                return
            coll = getattr(res, a)
            stored = coll["k"] if t == "dict" else (list(coll)[-1] if t == "list" else (5 if 5 in coll else sorted(coll)[-1]))
            if stored != 5:
                ctx.fail("element_prepared_by_other_attribute", case, f"{n}(5) stored {stored!r} in {a!r}: an element went through a preparer that belongs to another attribute")
                return
    # (5) a subclass that overrides a helper and reaches the generated one through super() keeps its override
    if case.get("sub"):
        kind, sub_names = case["sub"]
        sub_names = [n for n in sub_names if n in names and n not in pre]
        ns = {"__module__": "vf.generated"}
        holder = {}

        def make_user(n):
            def user(self, *a, **k):
                getattr(super(holder["Sub"], self), n)  # what `super().<helper>(...)` does first: look the generated method up
                return "user"
            user.__name__ = n
            return user

        users = {n: make_user(n) for n in sub_names}
        ns.update(users)
        # a fresh copy of the decorated class whose helpers have never been looked up (the generated methods are
        # materialised on first access, and that first access is the one that must not touch the subclass)
        cls2, _, opts2 = make_class(case)
        base2 = spec_class(**opts2)(cls2)
        Sub = type("Sub", (base2,), ns)
        holder["Sub"] = Sub
        if kind == "spec":
            try:
                Sub = spec_class(bootstrap=case["eager"])(Sub)
            except RuntimeError:
                Sub = None
        if Sub is not None and sub_names:
            try:
                sinst = Sub() if "__init__" not in case["switches_off"] or "__init__" in case["user_dunders"] else Sub.__new__(Sub)
            except (TypeError, AttributeError, ValueError, RecursionError):
                # (RecursionError: the generated user __init__ of this harness delegates to self.__spec_class_init__, which
                # a spec subclass re-binds - an artefact of the harness, not of the library)
                sinst = Sub.__new__(Sub)
            for n in sub_names:
                got = []
                for _ in range(2):
                    try:
                        got.append(getattr(sinst, n)())
                    except Exception as ex:
                        got.append(repr(ex))
                getattr(super(Sub, Sub), n, None)  # class-level lookup past the subclass
                got.append(getattr(sinst, n)() if callable(getattr(sinst, n, None)) else "not callable")
                if got != ["user"] * 3 or vars(Sub).get(n) is not users[n]:
                    ctx.fail(f"replaced|subclass_override:{kind}|{_role(names, n)}", case,
                             f"{kind} subclass overriding {n} and looking the generated helper up through super(): calls returned {got}; vars(Sub)[{n!r}] is {vars(Sub).get(n)!r}")
                    return
            ctx.count(f"sub_override:{kind}")
    ctx.count(f"select:{select}")
    ctx.case(case, bool(case["occupied"]) or _has_collision(eff) or bool(case.get("sub")))


def _unwrap(o):
    # a user __new__ is stored as staticmethod(f) by type.__new__ and restored as f after lazy bootstrapping: same code
    return o.__func__ if isinstance(o, (staticmethod, classmethod)) else o


def _role(names, n):
    return (names or {}).get(n, (None, "other"))[1]


def _has_collision(attrs):
    managed = [a for a, _ in attrs]
    sing = [SINGULAR[a] or f"{a}_item" for a, t in attrs if t != "int"]
    return any(s in managed for s in sing) or len(set(sing)) != len(sing)


def base_case(attrs, **kw):
    c = {"attrs": [list(a) for a in attrs], "select": "annotations", "defaults": True, "private": False, "eager": True, "switches_off": [], "user_dunders": [], "occupied": []}
    c.update(kw)
    return c


def enum_cases():
    for attrs in ATTR_SETS:
        for select, eager, private in itertools.product(["annotations", "attrs", "attrs_typed", "skip"] + list(MIXED), [True, False], [False, True]):
            yield base_case(attrs, select=select, eager=eager, private=private)
        for sw in (["init"], ["repr"], ["eq"], ["init", "repr", "eq"]):
            yield base_case(attrs, switches_off=sw, eager=False)
        for select, eager in itertools.product(["attrs", "attrs+skip0", "attrs+skip1", "attrs_only_first"], [True, False]):
            yield base_case(attrs, select=select, eager=eager, one_shot=True)
        for eager in (True, False):
            yield base_case(attrs, eager=eager, reuse_decorator=True)
            yield base_case(attrs, eager=eager, private=True, key="private")
            yield base_case(attrs, eager=eager, select="skip", key="skipped")
        for eager in (True, False):
            yield base_case(attrs, prep_scalars=True, eager=eager)
        for ud in (["__init__"], ["__repr__"], ["__eq__"], ["__new__"], ["__init__", "__repr__", "__eq__", "__new__"]):
            for eager in (True, False):
                yield base_case(attrs, user_dunders=ud, eager=eager)
        for k in range(1, len(attrs)):
            for eager, touch in itertools.product([True, False], [False, True]):
                yield base_case(attrs, split=k, eager=eager, touch_parent_first=touch)
                yield base_case(attrs, split=k, eager=eager, touch_parent_first=touch, split_mode="bases")
        names, err = expected_names(attrs)
        if err is True or not names:
            continue
        for n in names:
            for kind in ("function", "staticmethod", "property", "value", "none", "false", "zero"):
                for eager in (True, False):
                    yield base_case(attrs, occupied=[[n, kind]], eager=eager)
        if len(attrs) <= 2:
            onames, oerr = expected_names(list(attrs) + [(OVERFLOW, "dict")])
            for eager in (True, False):
                yield base_case(attrs, overflow=True, eager=eager)
            for n in onames:
                if OVERFLOW not in n and "extra" not in n and n not in TOP:
                    continue
                for kind in ("function", "staticmethod", "property", "value", "none"):
                    yield base_case(attrs, overflow=True, occupied=[[n, kind]], eager=kind != "property")
            for kind in ("plain", "spec"):
                for eager in (True, False):
                    yield base_case(attrs, sub=[kind, [n]], eager=eager)


@st.composite
def case_strategy(draw):
    src = grammar.HypSource(draw)
    attrs = src.pick(ATTR_SETS)
    c = base_case(attrs, select=src.pick(["annotations", "annotations", "attrs", "attrs_typed", "skip"] + list(MIXED)), eager=src.chance(1, 2), private=src.chance(1, 3),
                  defaults=src.chance(3, 4))
    if len(attrs) > 1 and src.chance(1, 6):
        c.update(select="annotations", split=1 + src.choice(len(attrs) - 1), touch_parent_first=src.chance(1, 2))
        if src.chance(1, 2):
            c["split_mode"] = "bases"
        return c
    c["prep_scalars"] = src.chance(1, 4)
    if c["select"].startswith("attrs") and not c["select"].startswith("attrs_typed") and src.chance(1, 3):
        c["one_shot"] = True
    if src.chance(1, 5):
        c["overflow"] = True
    if c["select"] == "annotations" and src.chance(1, 6):
        c["reuse_decorator"] = True
    if src.chance(1, 6):
        c["key"] = src.pick(["private", "skipped"])
    c["switches_off"] = [s for s in ("init", "repr", "eq") if src.chance(1, 6)]
    c["user_dunders"] = [d for d in ("__init__", "__repr__", "__eq__", "__new__") if src.chance(1, 5)]
    names, err = expected_names(effective(c))
    if names and err is not True:
        pool = sorted(names)
        for _ in range(src.choice(3)):
            n = src.pick(pool)
            if n not in [o[0] for o in c["occupied"]]:
                c["occupied"].append([n, src.pick(["function", "staticmethod", "property", "value", "none", "false", "zero"])])
        if src.chance(1, 3):
            c["sub"] = [src.pick(["plain", "spec"]), [src.pick(pool) for _ in range(1 + src.choice(2))]]
    return c


BOUNDS = {"quick": dict(examples=600, units=8), "thorough": dict(examples=3000, units=12)}


def units(tier, seed):
    return [["enum", i, 8] for i in range(8)] + [["hyp", i] for i in range(BOUNDS[tier]["units"])]


def run_unit(ctx, unit):
    if unit[0] == "enum":
        for i, case in enumerate(enum_cases()):
            if i % unit[2] == unit[1]:
                run_case(ctx, case)
        ctx.count("enum_shards_completed")
        return
    b = BOUNDS[ctx.tier]
    run_given(ctx, lambda case: run_case(ctx, case), {"case": case_strategy()}, b["examples"], ctx.seed * 1000 + unit[1])


def coverage_extra(tier, counters):
    return {"exhaustive": True, "exhaustive_scope": f"{len(ATTR_SETS)} attribute sets x selection/eager/private options, switch and user-dunder variants, and every expected helper name x 4 occupation kinds x lazy/eager"}


def replay(ctx, case):
    run_case(ctx, case)
