"""
Executable reading of the documentation (usage/basic.md, usage/methods/*.md, advanced.md) over
*abstract states*, computed from the world descriptor alone (never from __spec_class__).

abstract forms
  scalars                 the value itself
  list / tuple / set      ["L", [..]] / ["T", [..]] / ["S", [.. sorted by repr ..]]
  dict                    ["D", {key: value}]
  KeyedList / KeyedSet    ["KL", [..]] / ["KS", [.. sorted by repr ..]]
  spec instance           ["I", class name, {attr: value}]   (only attributes stored on the instance)
  other objects           ["O", repr]
ABSENT marks "no value" in expected states.
"""

from __future__ import annotations

from vf import grammar

ABSENT = "<absent>"


def abstract(obj):
    """Abstract form of a real value."""
    if isinstance(obj, (bool, int, float, str, bytes, type(None))):
        return obj
    if isinstance(obj, list):
        return ["L", [abstract(x) for x in obj]]
    if isinstance(obj, tuple):
        return ["T", [abstract(x) for x in obj]]
    if isinstance(obj, (set, frozenset)):
        return ["S", sorted((abstract(x) for x in obj), key=repr)]
    if isinstance(obj, dict):
        return ["D", {k: abstract(v) for k, v in obj.items()}]
    if hasattr(obj, "_dict") and hasattr(obj, "_key") and type(obj).__module__.startswith("spec_classes"):
        if hasattr(obj, "_list"):
            return ["KL", [abstract(x) for x in obj]]
        return ["KS", sorted((abstract(x) for x in obj), key=repr)]
    if hasattr(obj, "__spec_class__") and hasattr(obj, "__dict__"):
        d = object.__getattribute__(obj, "__dict__")
        return ["I", type(obj).__name__, {k: abstract(v) for k, v in d.items() if not k.startswith("__")}]
    return ["O", repr(obj)]


def state_of(obj):
    return abstract(obj)[2]


# ---------------------------------------------------------------------------
# model values from JSON value descriptors


def mvalue(world, v, T=None):
    """Abstract form of the python object world.realize(v) would build, *before* it is assigned anywhere."""
    if isinstance(v, list):
        k = v[0]
        if k == "list":
            return ["L", [mvalue(world, x) for x in v[1]]]
        if k == "tuple":
            return ["T", [mvalue(world, x) for x in v[1]]]
        if k == "set":
            return ["S", sorted((mvalue(world, x) for x in v[1]), key=repr)]
        if k == "dict":
            return ["D", {a: mvalue(world, b) for a, b in v[1]}]
        if k == "spec":
            return model_new(world, v[1], {a: mvalue(world, b) for a, b in v[2].items()})
        if k == "kl":
            return ["KL", [mvalue(world, x) for x in v[2]]]
        if k == "ks":
            return ["KS", sorted((mvalue(world, x) for x in v[2]), key=repr)]
        if k in ("klraw", "ksraw"):
            return ["KL" if k == "klraw" else "KS", list(v[1])]
        raise AssertionError(v)
    return v


def apply_prep(how, v):
    """Model of the named preparer kinds on abstract values."""
    if how is None or how == "noop":
        return v
    if how == "cast_list":
        return ["L", v[1]] if isinstance(v, list) and v and v[0] == "T" else v
    if isinstance(v, list):
        return v
    return grammar.apply_preparer(how, v)


def normalise(world, cname, attr, v):
    """What assigning abstract value v to cname.attr stores: attribute preparer, container cast, item preparers,
    bare key -> keyed spec promotion. v must be conforming (after the cast)."""
    a = world.attrs(cname)[attr]
    T = a["type"]
    v = apply_prep(None if cname in ("U", "N") else world.prepare_kind(attr), v)
    if not grammar.is_collection(T):
        return v
    if v is None:
        v = _empty(T)
    item_how = world.prepare_kind(attr, item=True) if cname not in ("U", "N") else None
    E = grammar.elem_type(T)

    def item(x):
        x = apply_prep(item_how, x)
        if E[0] == "spec" and E[1] == "N" and isinstance(x, str):
            return model_new(world, "N", {"k": x})
        return x

    tag = {"list": "L", "set": "S", "dict": "D", "keyedlist": "KL", "keyedset": "KS"}[T[0]]
    if tag == "D":
        return ["D", {k: item(x) for k, x in v[1].items()}]
    items = [item(x) for x in v[1]]
    if tag in ("S", "KS"):
        out, seen = [], set()
        for x in items:
            key = repr(x[2].get("k")) if tag == "KS" and isinstance(x, list) and x[0] == "I" else repr(x)
            if key in seen:
                out = [y for y in out if (repr(y[2].get("k")) if tag == "KS" and isinstance(y, list) and y[0] == "I" else repr(y)) != key]
            seen.add(key)
            out.append(x)
        items = sorted(out, key=repr)
    return [tag, items]


def _empty(T):
    return {"list": ["L", []], "set": ["S", []], "dict": ["D", {}], "keyedlist": ["KL", []], "keyedset": ["KS", []]}[T[0]]


def model_default(world, cname, attr):
    """Abstract default prescribed for cname.attr (as the constructor installs it: prepared), or ABSENT."""
    d = world.declared_default(attr, cname)
    if d[0] in ("none", "attr_none"):
        return ABSENT
    return normalise(world, cname, attr, mvalue(world, d[1]))


def raw_default(world, cname, attr):
    d = world.declared_default(attr, cname)
    if d[0] in ("none", "attr_none"):
        return ABSENT
    return mvalue(world, d[1])


def model_new(world, cname, kwargs):
    """Abstract instance the generated constructor of cname builds from abstract keyword values."""
    state = {}
    for name, a in world.attrs(cname).items():
        if a.get("init") is False:
            continue
        if name in kwargs:
            state[name] = normalise(world, cname, name, kwargs[name])
        else:
            dv = model_default(world, cname, name)
            if dv is not ABSENT:
                state[name] = dv
    return ["I", cname, state]


def invalidate(world, cname, state, changed, seen=None):
    """Dependants of `changed` (invalidated_by) go back to their default, transitively."""
    seen = seen or {changed}
    for name, a in world.attrs(cname).items():
        if changed in (a.get("invalidated_by") or ()) and name not in seen:
            seen.add(name)
            dv = model_default(world, cname, name)  # as a newly constructed instance would hold it (prepared)
            if dv is ABSENT:
                state.pop(name, None)
            else:
                state[name] = dv
            invalidate(world, cname, state, name, seen)
    return state


def set_attr(world, cname, state, attr, v):
    state = dict(state)
    state[attr] = normalise(world, cname, attr, v)
    return invalidate(world, cname, state, attr)


def reset_attr(world, cname, state, attr):
    """Returns the set of acceptable states (one): the attribute holds what a newly constructed instance would hold - the
    default as the constructor installs it, i.e. prepared."""
    if model_default(world, cname, attr) is ABSENT and attr not in state:
        return [dict(state)]  # nothing held, nothing to restore: no change (and nothing to invalidate)
    outs = []
    for dv in (model_default(world, cname, attr),):
        s = dict(state)
        if dv is ABSENT:
            s.pop(attr, None)
        else:
            s[attr] = dv
        s = invalidate(world, cname, s, attr)
        if s not in outs:
            outs.append(s)
    return outs
