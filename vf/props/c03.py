"""
C03 - managed attributes always satisfy their declared type on every mutation route.

Invariant oracle: after construction and after every API operation, every
managed attribute stored on every live instance conforms to its declared type
according to the independent reference checker (vf/reftype.py).
"""

from __future__ import annotations

from vf import grammar, ops, reftype
from vf.props.common import op_route, world_history
from vf.runner import run_given

ID = "C03"
LEVEL = "exploration"
RULE = (
    "cases = (generated class world, history of <= 12 API operations with ~35% position-specific ill-typed values: constructor keywords, "
    "assignment, deletion, scalar/element/top-level helpers in every addressing mode, nested keyword updates, in-place nested edits through "
    "the API). After every step the reference checker inspects the raw storage of every live instance. Non-trivial = the history contains an "
    "op that tried to establish an ill-typed value through an element / key / nested position; distinct = canonical JSON of the case."
)
ASSUMPTIONS = [
    "direct mutation of a contained list/dict by user code bypasses the API and is not generated",
    "attributes masked by descriptors are checked for the stored override only (derived reads store nothing)",
    "KeyedList/KeyedSet attributes: items must be instances of the declared spec class and keys str",
]


def run_case(ctx, case):
    world = grammar.build_world(case["world"])
    hist = case["ops"]
    live = []
    try:
        cur = ops.construct(world, hist[0])
    except ops.CLEAN:
        ctx.count("ctor:raise")
        ctx.case(case, False)
        return
    live.append(cur)

    def check(step, op):
        for obj in live:
            v = reftype.first_violation(obj, world)
            if v:
                attr, val = v
                T = world.attrs(type(obj).__name__)[attr]["type"]
                ctx.fail(f"{op_route(world, op) if op['t'] != 'new' else 'new'}=>{T[0]}", case,
                         f"step {step} {op}: {type(obj).__name__}.{attr} holds {val!r}, which does not conform to {T}")
                return False
        return True

    if not check(0, hist[0]):
        return
    saw_elem_bad = False
    for i, op in enumerate(hist[1:], 1):
        outcome, value = ops.execute(world, cur, op)
        ctx.count(f"{outcome}:{op['t']}")
        carries_value = op["t"] != "call" or op["a"] or any(not k.startswith("_") for k in op["k"])  # (with_x() asks for a fresh default-built value)
        if op.get("bad") and carries_value and outcome == "raise" and not isinstance(value, (TypeError, ValueError, LookupError, grammar.Injected)):
            # "An operation that would establish a non-conforming value raises TypeError or ValueError": an ill-typed argument must
            # not surface as some other error from deeper inside (LookupError: a missing index / key may be reported first)
            ctx.fail(f"{op_route(world, op)}|wrong_exception:{type(value).__name__}", case, f"step {i} {op} (ill-typed argument) raised {value!r}, neither TypeError nor ValueError")
            return
        if op.get("bad") == "elem":
            saw_elem_bad = True
            ctx.count(f"bad_elem:{outcome}")
        elif op.get("bad"):
            ctx.count(f"bad_top:{outcome}")
        if outcome == "ok" and hasattr(value, "__spec_class__") and type(value).__name__ in world.all_attrs and value not in [x for x in live if x is value]:
            if not any(x is value for x in live):
                live.append(value)
        cur = ops.adopt(world, cur, op, outcome, value)
        if not check(i, op):
            return
    ctx.case(case, saw_elem_bad)


BOUNDS = {"quick": dict(examples=600, units=16), "thorough": dict(examples=3500, units=16)}


def units(tier, seed):
    return [["hyp", i] for i in range(BOUNDS[tier]["units"])]


@__import__("hypothesis").strategies.composite
def case_strategy(draw):
    src = grammar.HypSource(draw)
    wd = grammar.gen_world(src, grammar.PROFILES["data"])
    for c in wd["classes"]:
        for a in c["attrs"]:
            if a["name"] == "level" and src.chance(1, 2):
                # the exclusive zero bound (a falsy bound is still a bound): 0 itself is the nearest non-member
                a["type"] = ["bounded", "int", {"gt": 0}]
                if a["default"][0] not in ("none", "attr_none"):
                    a["default"] = [a["default"][0], 1 + src.choice(3)]
        for name in list(c.get("redefaults") or {}):
            if name == "level":
                c["redefaults"][name] = 1 + src.choice(3)
    info = grammar.world_info(wd)
    return {"world": wd, "ops": ops.gen_history(src, info, max_ops=12, bad_rate=(35, 100))}


def run_unit(ctx, unit):
    b = BOUNDS[ctx.tier]
    run_given(ctx, lambda case: run_case(ctx, case), {"case": case_strategy()}, b["examples"], ctx.seed * 1000 + unit[1])


def replay(ctx, case):
    run_case(ctx, case)
