#!/bin/sh
# ./run_all.sh [quick|thorough] [ids...]  - run checks sequentially, one summary line each
TIER="${1:-quick}"; shift
IDS="${*:-C01 C02 C03 C04 C05 C06 C07 C08 C09 C10 C11 C12 C13 C14 C15 C16 C17 C18 C19 C20}"
HERE="$(cd "$(dirname "$0")" && pwd)"
rc=0
for id in $IDS; do
  start=$(date +%s)
  out=$("$HERE/check" "$id" --tier "$TIER" 2>&1); code=$?
  end=$(date +%s)
  echo "$id exit=$code wall=$((end-start))s :: $(echo "$out" | grep -v KNOWN-FINDING | tail -1 | cut -c1-200)"
  echo "$out" | grep -E "^VIOLATION|HARNESS-ERROR" | cut -c1-300
  [ $code -ne 0 ] && rc=1
done
exit $rc
