"""
Coverage-guided byte-level campaigns (atheris / libFuzzer) with the semantic
oracle inside the target. Each campaign runs in a fresh subprocess so that
`spec_classes` is imported under atheris instrumentation; statistics and the
first failure come back through a JSON file. If atheris is unavailable the
unit falls back to Hypothesis `binary()` input through the same decoder and
says so in the counters.
"""
import json
import os
import subprocess
import sys
import tempfile

from hypothesis import strategies as st

from vf.runner import HERE, HarnessError, Violation, run_given


def have_atheris():
    deps = os.path.join(HERE, ".deps")
    if os.path.isdir(deps) and deps not in sys.path:
        sys.path.append(deps)
    try:
        import atheris  # noqa: F401

        return True
    except Exception:
        return False


def run_fuzz_unit(ctx, prop, shard, decode, run_case, runs=50000, max_len=128):
    if not have_atheris():
        ctx.count("fuzz:fallback_hypothesis_binary")

        def t(data):
            case = decode(data)
            if case is not None:
                run_case(ctx, case)

        run_given(ctx, t, {"data": st.binary(min_size=4, max_size=max_len)}, max(200, runs // 20), ctx.seed * 7919 + shard)
        return
    with tempfile.TemporaryDirectory(prefix="vffuzz_") as tmp:
        out = os.path.join(tmp, "out.json")
        corpus = os.path.join(tmp, "corpus")
        os.makedirs(corpus)
        env = dict(os.environ)
        cmd = [sys.executable, "-B", os.path.join(HERE, "vf", "fuzz", "target.py"), prop, out, corpus,
               str(runs), str((ctx.seed * 7919 + shard) % (2**31 - 1) or 1), str(max_len), json.dumps(ctx.known_buckets)]
        r = subprocess.run(cmd, env=env, capture_output=True, text=True, cwd=HERE)
        if not os.path.exists(out):
            raise HarnessError(f"fuzz target produced no output (exit {r.returncode}): {r.stderr[-800:]}")
        with open(out) as f:
            res = json.load(f)
    if res.get("error"):
        raise HarnessError("fuzz target: " + res["error"])
    if ctx.recording:
        ctx.evaluations += res["evaluations"]
        ctx.nontrivial.update(res["nontrivial"])
        ctx.counters.update(res["counters"])
        ctx.excluded.update(res["excluded"])
        ctx.counters["fuzz:atheris_execs"] += res.get("execs", 0)
        for s in res["samples"]:
            if len(ctx.samples) < ctx.MAX_SAMPLES:
                ctx.samples.append(s)
    for fl in res["failures"]:
        # minimise with a tiny ddmin over the op list when the case has one
        ctx.failures.append(fl)
