"""
C01 - copy-on-write helpers never change the instance they are called on.

Oracle: identity+content snapshots of the receiver, of every argument object, of every other
live instance and of the class-level defaults, taken immediately before the probe, must be
unchanged after it - whether the probe returned or raised, naturally, through a failing user
callback, or aborted at an executed line of library code.
"""
from __future__ import annotations

from vf import ops
from vf import grammar
from vf.probe import run_probe_case
from vf.props.common import world_history
from vf.runner import run_given

ID = "C01"
LEVEL = "exploration"
RULE = (
    "cases = (generated class world, history of <= 8 API ops reaching a state, probe = one generated helper called without _inplace=True with "
    "any argument mix). The probe runs naturally, then once per (user callback, invocation) with that invocation raising, then (sampled in quick, "
    "exhaustive on a third of the cases in thorough) once per executed library line with an exception injected there; each run on a replica rebuilt "
    "by replaying the history. Non-trivial = the receiver holds a mutable nested value and the probe raised or returned a different state; "
    "distinct = canonical JSON of (world, history, probe)."
)
ASSUMPTIONS = [
    "transforms are pure (they return new objects); frozen classes (C07) and do_not_copy=True classes are outside this property",
    "line-level faults are injected at `line` trace events of Python code under spec_classes/ and of the exec-generated wrappers",
]


def _probe(src, info):
    attrs = info.attrs()
    backed = [n for n, a in attrs.items() if a["default"][0] in ("cached_prop", "derived_prop", "view_prop")]
    if backed and src.chance(1, 3):
        # attributes backed by a property (cached / derived from a cached one / a view on something the instance owns): the
        # helper has to READ them first - which is where a receiver gets touched
        n = src.pick(backed)
        if grammar.is_collection(attrs[n]["type"]) and src.chance(2, 3):
            return ops.gen_element_call(src, info, None, n, False, (1, 4))
        return ops.gen_scalar_call(src, info, None, n, False, (1, 4))
    inherited_items = [n for n, a in attrs.items() if grammar.is_collection(a["type"]) and info.prepare_kind(n, item=True)]
    if inherited_items and src.chance(1, 6):
        # a collection with an element preparer in force, handed over whole: the caller's collection is never prepared in place
        n = src.pick(inherited_items)
        return {"t": "call", "m": f"with_{n}", "a": [grammar.gen_value(src, attrs[n]["type"], True)], "k": {}}
    return ops.gen_op(src, info, inplace=False, bad_rate=(1, 4), allow=("scalar", "element", "top"))


def run_case(ctx, case):
    run_probe_case(ctx, case, "c01")


BOUNDS = {"quick": dict(examples=500, units=16), "thorough": dict(examples=1600, units=16)}


def units(tier, seed):
    return [["hyp", i] for i in range(BOUNDS[tier]["units"])]


def run_unit(ctx, unit):
    b = BOUNDS[ctx.tier]
    run_given(ctx, lambda case: run_case(ctx, case), {"case": world_history(dict(grammar.PROFILES["data"], cached_props=True), max_ops=8, probe=_probe, bad_rate=(1, 8))}, b["examples"], ctx.seed * 1000 + unit[1])


def replay(ctx, case):
    run_case(ctx, dict(case, line_plan=[]))
