"""
C18 - Alias mirrors its target until overridden; passthrough writes reach the target.

Oracle: two-variable model (target value reachable through the path, local
override) run in lock-step with real Alias / DeprecatedAlias descriptors on a
plain class and on a spec class where the alias is a managed, typed attribute.
A second, small check compares the path parser with Python's own evaluation.
"""

from __future__ import annotations

import copy
import itertools
import re
import warnings

from hypothesis import strategies as st

from vf.runner import run_given

ID = "C18"
LEVEL = "exploration"
RULE = (
    "configurations = passthrough x transform x fallback(none/immutable/mutable) x 8 path shapes (plain, dotted, [\"k\"], a.b[\"k\"], "
    "[\"k\"][\"j\"], key with dot, key with escaped quote, single-quoted key) x host (plain class / spec class with the alias as managed typed "
    "attribute) x Alias/DeprecatedAlias; every op sequence up to the bound over {read alias, write alias (conforming / ill-typed), delete "
    "alias, write target, delete target, delete intermediate, with_<alias>/with_<target> helper, deepcopy, mutate the value returned by the "
    "last alias read}; Hypothesis op lists (<= 30 ops) beyond; plus generated path strings (Hypothesis / atheris) where the parser must "
    "either raise ValueError or resolve like Python's eval. Non-trivial = >= 3 ops containing a write to alias or target followed by a read "
    "of the other; distinct = canonical JSON of (config, ops)."
)
ASSUMPTIONS = [
    "deleting through a passthrough alias whose target is missing may raise AttributeError or KeyError",
    "DeprecatedAlias must emit at least one warning of its class per alias access (exactly none for Alias)",
    "an ill-typed write on the spec host raises TypeError and changes nothing; plain hosts are untyped",
]

SHAPES = {
    "plain": ("x", ["x"]),
    "dotted": ("child.x", ["child", "x"]),
    "item": ('d["k"]', ["d", ("k",)]),
    "mixed": ('child.d["k"]', ["child", "d", ("k",)]),
    "item2": ('d["k"]["j"]', ["d", ("k",), ("j",)]),
    "dotkey": ('d["a.b"]', ["d", ("a.b",)]),
    "quotekey": ('d["q\\"r"]', ["d", ('q"r',)]),
    "squote": ("d['k']", ["d", ("k",)]),
    "item_attr": ('d["k"].x', ["d", ("k",), "x"]),       # an attribute behind an item lookup
    "squote_dotkey": ("d['a.b']", ["d", ("a.b",)]),      # a period inside a single-quoted key
}
FALLBACKS = {"none": None, "imm": 9, "mut": [1, [2]]}  # (a mutable fallback that itself holds a mutable object)
_CLS = {}


class Holder:
    def __eq__(self, other):
        return isinstance(other, Holder) and self.__dict__ == other.__dict__


def _double(v):
    if v == 7 and not isinstance(v, bool):
        # a transform that fails with AttributeError on one particular target value: the error is the transform's, the target
        # exists - no fallback applies ("any errors retrieving the underlying aliased attribute value are passed through")
        raise AttributeError("'int' object has no attribute 'name'")
    return ("doubled", None) if v is None else v * 2  # total over everything a target may hold, incl. None


def host_class(cfg):
    key = tuple(sorted(cfg.items()))
    if key in _CLS:
        return _CLS[key]
    from typing import Any, Dict, List, Union

    from spec_classes import spec_class
    from spec_classes.types import MISSING, Alias, DeprecatedAlias

    path = SHAPES[cfg["shape"]][0]
    kw = dict(passthrough=cfg["passthrough"], transform=_double if cfg["transform"] else None)
    if cfg["fallback"] != "none":
        kw["fallback"] = copy.deepcopy(FALLBACKS[cfg["fallback"]])  # (the descriptor gets its own object: the model's stays pristine)
    with warnings.catch_warnings():
        warnings.simplefilter("ignore")
        alias = (DeprecatedAlias if cfg["deprecated"] else Alias)(path, **kw)
        if cfg["host"] == "plain":
            cls = type("P", (), {"al": alias})
        else:
            ns = {"__annotations__": {"x": Union[int, None], "child": Any, "d": Dict[str, Any], "al": Union[int, List[int], None]}, "al": alias}
            cls = spec_class(bootstrap=True, **({"frozen": True} if cfg.get("frozen") else {}))(type("S", (), ns))
    _CLS[key] = (cls, alias)
    return _CLS[key]


# model state: nested plain data {"x": v?, "child": {"x": v?, "d": {...}}?, "d": {...}?}; absent key == missing


def model_get(state, segs):
    cur = state
    for s in segs:
        k = s[0] if isinstance(s, tuple) else s
        if not isinstance(cur, dict) or k not in cur:
            raise LookupError(k)
        cur = cur[k]
    return cur


def initial_state(segs, present):
    """Build the model state in which every intermediate exists and the leaf holds 3 (if present)."""
    state = {}
    cur = state
    for i, s in enumerate(segs):
        k = s[0] if isinstance(s, tuple) else s
        last = i == len(segs) - 1
        if last:
            if present:
                cur[k] = 3
        else:
            cur[k] = {}
            cur = cur[k]
    return state


def realize(obj, state, segs):
    """Write the model state onto a fresh host instance (top level) through plain setattr."""
    def build(node, rest):
        # node is a dict in the model; rest are the remaining segments below it
        nxt = rest[0]
        if isinstance(nxt, tuple):  # node is a real dict
            out = {}
            for k, v in node.items():
                out[k] = build(v, rest[1:]) if isinstance(v, dict) and len(rest) > 1 else v
            return out
        h = Holder()
        for k, v in node.items():
            setattr(h, k, build(v, rest[1:]) if isinstance(v, dict) and len(rest) > 1 else v)
        return h

    root = segs[0]
    if root in state:
        v = state[root]
        if isinstance(v, dict) and len(segs) > 1:
            v = build(v, segs[1:])
        if getattr(getattr(obj, "__spec_class__", None), "frozen", False):
            object.__getattribute__(obj, "__dict__")[root] = v  # the harness's own set-up of a frozen host
        else:
            setattr(obj, root, v)


def real_target_parent(obj, segs):
    cur = obj
    for s in segs[:-1]:
        cur = cur[s[0]] if isinstance(s, tuple) else getattr(cur, s)
    return cur


CLEAN = (AttributeError, KeyError, TypeError, ValueError)
LETTERS = [["read"], ["write", 5], ["write", "zz"], ["write", None], ["write", 0], ["delete"], ["wtarget", 7], ["dtarget"], ["droot"], ["with_alias", 4], ["with_target", 6],
           ["deepcopy"], ["mutate_last"], ["reset_alias"]]


def run_seq(ctx, case):
    cfg, ops = case["config"], case["ops"]
    cls, alias = host_class(cfg)
    path, segs = SHAPES[cfg["shape"]]
    spec = cfg["host"] == "spec"
    dep = cfg["deprecated"]
    warn_cls = DeprecationWarning
    state = initial_state(segs, case.get("present", True))
    obj = cls()
    realize(obj, state, segs)
    override = None  # None | ("set", v)
    fb = copy.deepcopy(FALLBACKS[cfg["fallback"]])
    last_read = None
    wrote_alias = wrote_target = nontrivial = False
    tag = f"{'dep' if dep else 'alias'}:{cfg['host']}:{'pt' if cfg['passthrough'] else 'local'}"

    def expect_read():
        if not cfg["passthrough"] and override is not None:
            return "ok", override[1], False
        try:
            v = model_get(state, segs)
        except LookupError:
            if fb is not None:
                return "ok", fb, True
            return "raise", AttributeError, False
        if cfg["transform"]:
            try:
                return "ok", _double(v), False
            except AttributeError:
                return "raise", AttributeError, False
        return "ok", v, False

    def do(fn):
        with warnings.catch_warnings(record=True) as w:
            warnings.simplefilter("always")
            try:
                return ("ok", fn()), w
            except CLEAN as e:
                return ("raise", e), w
            except Exception as e:
                if type(e).__name__ == "FrozenInstanceError":  # (the library's own refusal: an outcome, judged by the caller)
                    return ("raise", e), w
                raise

    def check_warn(w, i, op, alias_access=True):
        n = sum(1 for x in w if issubclass(x.category, warn_cls))
        if dep and alias_access and n < 1:
            ctx.fail(f"{tag}:{op[0]}:no_warning", case, f"step {i} {op}: DeprecatedAlias access emitted no warning")
            return False
        if not dep and n:
            ctx.fail(f"{tag}:{op[0]}:spurious_warning", case, f"step {i} {op}: {n} warnings from a plain Alias")
            return False
        return True

    for i, op in enumerate(ops):
        name = op[0]
        if name == "read":
            kind, exp, is_fb = expect_read()
            (rk, rv), w = do(lambda: obj.al)
            if not check_warn(w, i, op):
                return
            if kind == "raise":
                if rk != "raise" or not isinstance(rv, AttributeError):
                    ctx.fail(f"{tag}:read:missing_raise", case, f"step {i} read gave {rv!r}; expected AttributeError (state={state!r})")
                    return
                last_read = None
            else:
                if rk == "raise":
                    ctx.fail(f"{tag}:read:unexpected_raise:{type(rv).__name__}", case, f"step {i} read raised {rv!r}; expected {exp!r} (state={state!r}, override={override!r})")
                    return
                if rv != exp or type(rv) is not type(exp):
                    ctx.fail(f"{tag}:read:value{':fallback' if is_fb else ''}", case, f"step {i} read returned {rv!r}; expected {exp!r} (state={state!r}, override={override!r})")
                    return
                if is_fb and isinstance(fb, list) and (rv is alias.fallback or (last_read is not None and rv is last_read)):
                    ctx.fail(f"{tag}:read:fallback_shared", case, f"step {i}: fallback object returned is shared (with the stored fallback or the previous read)")
                    return
                last_read = rv if is_fb else None
            if (wrote_target and not cfg["passthrough"]) or (wrote_alias):
                nontrivial = True
        elif name == "mutate_last":
            if isinstance(last_read, list):
                last_read.append(99)  # the caller owns what a fallback read returned - at every depth
                for x in last_read:
                    if isinstance(x, list):
                        x.append(98)
            continue
        elif name == "write":
            v = op[1]
            bad = spec and not (isinstance(v, int) or v is None)  # the alias is annotated Union[int, List[int], None]
            (rk, rv), w = do(lambda: setattr(obj, "al", v))
            if bad:
                if rk != "raise" or not isinstance(rv, TypeError):
                    ctx.fail(f"{tag}:write:illtyped_accepted", case, f"step {i} write {v!r} on typed alias -> {rk} {rv!r}")
                    return
            elif cfg["passthrough"]:
                try:
                    parent = model_get(state, segs[:-1])
                    ok = isinstance(parent, dict)
                except LookupError:
                    ok = False
                if ok:
                    if rk == "raise":
                        ctx.fail(f"{tag}:write:unexpected_raise:{type(rv).__name__}", case, f"step {i} passthrough write raised {rv!r} (state={state!r})")
                        return
                    k = segs[-1][0] if isinstance(segs[-1], tuple) else segs[-1]
                    parent[k] = v
                    wrote_alias = True
                elif rk != "raise":
                    ctx.fail(f"{tag}:write:missing_raise", case, f"step {i} passthrough write with missing intermediate succeeded (state={state!r})")
                    return
                if not check_warn(w, i, op):
                    return
            else:
                if rk == "raise":
                    ctx.fail(f"{tag}:write:unexpected_raise:{type(rv).__name__}", case, f"step {i} local write raised {rv!r}")
                    return
                override = ("set", v)
                wrote_alias = True
                if not check_warn(w, i, op):
                    return
        elif name == "delete":
            (rk, rv), w = do(lambda: delattr(obj, "al"))
            if cfg["passthrough"]:
                try:
                    parent = model_get(state, segs[:-1])
                    k = segs[-1][0] if isinstance(segs[-1], tuple) else segs[-1]
                    ok = isinstance(parent, dict) and k in parent
                except LookupError:
                    ok = False
                if ok:
                    if rk == "raise":
                        ctx.fail(f"{tag}:delete:unexpected_raise:{type(rv).__name__}", case, f"step {i} passthrough delete raised {rv!r} (state={state!r})")
                        return
                    del parent[k]
                elif rk != "raise" or not isinstance(rv, (AttributeError, KeyError)):
                    ctx.fail(f"{tag}:delete:missing_raise", case, f"step {i} passthrough delete of a missing target -> {rk} {rv!r}")
                    return
            else:
                if override is not None:
                    if rk == "raise":
                        ctx.fail(f"{tag}:delete:unexpected_raise:{type(rv).__name__}", case, f"step {i} delete of local override raised {rv!r}")
                        return
                    override = None
                elif rk != "raise" or not isinstance(rv, AttributeError):
                    ctx.fail(f"{tag}:delete:missing_raise", case, f"step {i} delete with no override -> {rk} {rv!r}")
                    return
            if not check_warn(w, i, op):
                return
        elif name == "reset_alias":
            # the generated reset_<alias>(_inplace=True) of a spec host: what `del obj.<alias>` does, where that is possible;
            # where there is nothing to delete it may refuse like `del` or do nothing
            if not spec or not hasattr(obj, "reset_al"):
                continue
            (rk, rv), w = do(lambda: obj.reset_al(_inplace=True))
            if rk == "raise" and type(rv).__name__ == "FrozenInstanceError":
                continue
            if cfg["passthrough"]:
                try:
                    parent = model_get(state, segs[:-1])
                    k = segs[-1][0] if isinstance(segs[-1], tuple) else segs[-1]
                    ok = isinstance(parent, dict) and k in parent
                except LookupError:
                    ok = False
                if ok:
                    if rk == "raise":
                        ctx.fail(f"{tag}:reset_alias:unexpected_raise:{type(rv).__name__}", case, f"step {i} reset_al(_inplace=True) raised {rv!r} (state={state!r})")
                        return
                    del parent[k]
            elif override is not None:
                if rk == "raise":
                    ctx.fail(f"{tag}:reset_alias:unexpected_raise:{type(rv).__name__}", case, f"step {i} reset_al(_inplace=True) with a local override raised {rv!r}")
                    return
                override = None
        elif name in ("wtarget", "dtarget", "droot"):
            # direct manipulation of the target (never through the alias)
            try:
                parent_m = model_get(state, segs[:-1])
            except LookupError:
                parent_m = None
            k = segs[-1][0] if isinstance(segs[-1], tuple) else segs[-1]
            if name == "droot":
                if len(segs) < 2 or segs[0] not in state:
                    continue
                del state[segs[0]]
                delattr(obj, segs[0]) if not spec else obj.__delattr__.__raw__(obj, segs[0]) if hasattr(obj.__delattr__, "__raw__") else delattr(obj, segs[0])
                wrote_target = True
                continue
            if not isinstance(parent_m, dict):
                continue
            parent_r = real_target_parent(obj, segs)
            if name == "wtarget":
                parent_m[k] = op[1]
                if isinstance(segs[-1], tuple):
                    parent_r[k] = op[1]
                else:
                    setattr(parent_r, k, op[1])
                wrote_target = True
            else:
                if k not in parent_m:
                    continue
                del parent_m[k]
                if isinstance(segs[-1], tuple):
                    del parent_r[k]
                elif spec and parent_r is obj:
                    # `del spec.x` resets to the default; x has none, so it becomes missing
                    delattr(parent_r, k)
                else:
                    delattr(parent_r, k)
                wrote_target = True
        elif name in ("with_alias", "with_target"):
            if not spec:
                continue
            if name == "with_target":
                if cfg["shape"] != "plain":
                    continue
                before = copy.deepcopy(state)
                (rk, rv), w = do(lambda: obj.with_x(op[1]))
                if rk == "raise":
                    ctx.fail(f"{tag}:with_target:unexpected_raise:{type(rv).__name__}", case, f"step {i} with_x raised {rv!r}")
                    return
                obj = rv
                state["x"] = op[1]
                wrote_target = True
                if not check_warn(w, i, op, alias_access=False):
                    return
            else:
                v = op[1]
                (rk, rv), w = do(lambda: obj.with_al(v))
                if cfg["passthrough"]:
                    try:
                        parent = model_get(state, segs[:-1])
                        ok = isinstance(parent, dict)
                    except LookupError:
                        ok = False
                    if ok:
                        if rk == "raise":
                            ctx.fail(f"{tag}:with_alias:unexpected_raise:{type(rv).__name__}", case, f"step {i} with_al raised {rv!r}")
                            return
                        k = segs[-1][0] if isinstance(segs[-1], tuple) else segs[-1]
                        parent[k] = v
                        obj = rv
                        wrote_alias = True
                    elif rk != "raise":
                        ctx.fail(f"{tag}:with_alias:missing_raise", case, f"step {i} with_al through a missing intermediate succeeded")
                        return
                else:
                    if rk == "raise":
                        ctx.fail(f"{tag}:with_alias:unexpected_raise:{type(rv).__name__}", case, f"step {i} with_al raised {rv!r}")
                        return
                    obj = rv
                    override = ("set", v)
                    wrote_alias = True
        elif name == "deepcopy":
            (rk, rv), w = do(lambda: copy.deepcopy(obj))
            if rk == "raise":
                ctx.fail(f"{tag}:deepcopy:unexpected_raise:{type(rv).__name__}", case, f"step {i} deepcopy raised {rv!r}")
                return
            obj = rv  # continue on the copy: it must carry target and override
            if not check_warn(w, i, op, alias_access=False):
                return
        else:
            raise AssertionError(op)
        ctx.count(f"op:{name}")
    ctx.case(case, len(ops) >= 3 and nontrivial)


# ---------------------------------------------------------------------------
# path parser vs eval

IDENT = ["a", "b", "foo", "x1", "_p"]
KEYCHARS = ["k", "a", ".", " ", "-", "\\\"", "'", "\\\\", "[", "]", "1"]


def gen_path(src):
    """segments: ("attr", name) | ("key", python-string-literal-source, quote)"""
    n = 1 + src(4)
    segs = []
    for i in range(n):
        if src(2) == 0 or i == 0 and src(3) != 0:
            segs.append(("attr", IDENT[src(len(IDENT))]))
        else:
            m = src(4)
            body = "".join(KEYCHARS[src(len(KEYCHARS))] for _ in range(m))
            q = '"' if src(4) else "'"
            if q == "'":
                body = body.replace("'", "\\'").replace('\\"', '"')
            segs.append(("key", body, q))
    # occasionally produce malformed joins
    glitch = src(12)
    s = ""
    for i, seg in enumerate(segs):
        if seg[0] == "attr":
            s += ("." if i else "") + seg[1]
        else:
            s += f"[{seg[2]}{seg[1]}{seg[2]}]"
    if glitch == 0:
        s = s.replace(".", "..", 1)
    elif glitch == 1:
        s = s + "."
    elif glitch == 2:
        s = "." + s
    return s


class _Any:
    """Object on which every attribute / key lookup succeeds, recording the trace."""

    def __init__(self, trace=()):
        object.__setattr__(self, "_trace", trace)

    def __getattr__(self, name):
        if name.startswith("__"):
            raise AttributeError(name)
        return _Any(self._trace + (("attr", name),))

    def __getitem__(self, key):
        return _Any(self._trace + (("key", key),))


_ID = r"[A-Za-z_][A-Za-z0-9_]*"
_KEY = r"\[\"(?:[^\"\\]|\\.)*\"\]|\['(?:[^'\\]|\\.)*'\]"
DOCUMENTED_PATH = re.compile(rf"(?:{_ID}|{_KEY})(?:\.{_ID}|{_KEY})*")


def _keys_are_literals(path):
    import ast

    for m in re.finditer(_KEY, path):
        try:
            with warnings.catch_warnings():
                warnings.simplefilter("ignore")
                if not isinstance(ast.literal_eval(m.group(0)[1:-1]), str):
                    return False
        except (SyntaxError, ValueError):
            return False
    return True


def run_path(ctx, case):
    from spec_classes.types import Alias

    path = case["path"]
    try:
        alias = Alias(path)
    except ValueError:
        if DOCUMENTED_PATH.fullmatch(path) and _keys_are_literals(path):
            ctx.fail("path:rejects_valid", case, f"Alias({path!r}) raised ValueError although the path is made of attribute names, periods and quoted-key item lookups only")
            return
        ctx.count("path:rejected")
        ctx.case(case, False)
        return
    except Exception as e:
        ctx.fail(f"path:construct_raises:{type(e).__name__}", case, f"Alias({path!r}) raised {e!r}")
        return

    class Root(_Any):
        al = alias

    root = Root()
    try:
        got = root.al
    except Exception as e:
        ctx.fail(f"path:read_raises:{type(e).__name__}", case, f"Alias({path!r}) accepted but reading raised {e!r}")
        return
    try:
        exp = eval(("r" if path.startswith("[") else "r.") + path, {"r": _Any()})  # noqa: S307 - generated by our own grammar
    except Exception:
        # accepted by the library although Python would not read it (e.g. a segment starting with a digit, '0.0'): the
        # property speaks about dotted and ["key"] paths and is silent on how lenient the parser is - no verdict
        ctx.count("path:accepted_not_python:abstained")
        ctx.case(case, False)
        return
    if getattr(got, "_trace", None) != getattr(exp, "_trace", None):
        ctx.fail("path:resolves_differently", case, f"Alias({path!r}) resolves to {getattr(got, '_trace', got)!r}; Python evaluates {exp._trace!r}")
        return
    ctx.count("path:accepted")
    ctx.case(case, len(exp._trace) >= 2 and any(k == "key" for k, _ in exp._trace), key=case)


def run_case(ctx, case):
    if "collection_alias" in case:
        return run_collection_alias(ctx, case)
    if "path" in case:
        run_path(ctx, case)
    else:
        run_seq(ctx, case)


# ---------------------------------------------------------------------------

BOUNDS = {
    "quick": dict(seq_len=3, examples=300, hyp_units=12, path_examples=1500),
    "thorough": dict(seq_len=4, examples=5000, hyp_units=16, path_examples=40000),
}


def configs():
    for host, dep, pt, tr, fb, shape in itertools.product(["plain", "spec"], [False, True], [False, True], [False, True], list(FALLBACKS), list(SHAPES)):
        yield {"host": host, "deprecated": dep, "passthrough": pt, "transform": tr, "fallback": fb, "shape": shape}
    # a frozen spec host: only the copy-on-write spellings apply (and must work as on the non-frozen host)
    for pt, tr, fb in itertools.product([False, True], [False, True], list(FALLBACKS)):
        yield {"host": "spec", "deprecated": False, "passthrough": pt, "transform": tr, "fallback": fb, "shape": "plain", "frozen": True}


FROZEN_LETTERS = ("read", "with_alias", "with_target", "deepcopy", "mutate_last")


# ---------------------------------------------------------------------------
# collection-typed (non-passthrough) aliases: element helpers on the alias are local writes

CA_LETTERS = ["alias_elem_inplace", "alias_elem_copy", "target_elem_inplace", "target_elem_copy", "read", "deepcopy", "delete_alias"]
CA_KINDS = ["list", "dict", "set", "spec"]
_CA = {}


def ca_class():
    if not _CA:
        from typing import Dict, List, Set

        from spec_classes import spec_class
        from spec_classes.types import Alias

        Sub = spec_class(bootstrap=True)(type("Sub", (), {"__annotations__": {"x": int, "tags": List[int]}, "x": 1, "tags": [], "__module__": "vf.generated"}))
        _CA["Sub"] = Sub
        ns = {"__annotations__": {"xs": List[int], "ys": List[int], "m": Dict[str, int], "m2": Dict[str, int], "s": Set[int], "s2": Set[int], "sub": Sub, "sa": Sub},
              "xs": [1], "ys": Alias("xs"), "m": {"a": 1}, "m2": Alias("m"), "s": {1}, "s2": Alias("s"), "sub": Sub(), "sa": Alias("sub"), "__module__": "vf.generated"}
        _CA["cls"] = spec_class(bootstrap=True)(type("CA", (), ns))
    return _CA["cls"]


def run_collection_alias(ctx, case):
    kind, seq = case["collection_alias"], case["ops"]
    if kind == "spec":
        return run_spec_alias(ctx, case)
    tname, aname, tsing, asing = {"list": ("xs", "ys", "x", "y"), "dict": ("m", "m2", "m_item", "m2_item"), "set": ("s", "s2", "s_item", "s2_item")}[kind]
    obj = ca_class()()
    T = {"list": [1], "dict": {"a": 1}, "set": {1}}[kind]
    Ov = None
    n = 1

    def add(c, v):
        c = copy.deepcopy(c)
        if kind == "list":
            c.append(v)
        elif kind == "dict":
            c[f"k{v}"] = v
        else:
            c.add(v)
        return c

    def args(v):
        return (f"k{v}", v) if kind == "dict" else (v,)

    for i, op in enumerate(seq):
        n += 1
        try:
            if op == "alias_elem_inplace":
                getattr(obj, f"with_{asing}")(*args(n), _inplace=True)
                Ov = add(Ov if Ov is not None else T, n)
            elif op == "alias_elem_copy":
                obj = getattr(obj, f"with_{asing}")(*args(n))
                Ov = add(Ov if Ov is not None else T, n)
            elif op == "target_elem_inplace":
                getattr(obj, f"with_{tsing}")(*args(n), _inplace=True)
                T = add(T, n)
            elif op == "target_elem_copy":
                obj = getattr(obj, f"with_{tsing}")(*args(n))
                T = add(T, n)
            elif op == "deepcopy":
                obj = copy.deepcopy(obj)
            elif op == "delete_alias":
                if Ov is None:
                    continue
                delattr(obj, aname)
                Ov = None
        except CLEAN as e:
            ctx.fail(f"collection_alias:{kind}:{op}:raises:{type(e).__name__}", case, f"step {i} {op} raised {e!r}")
            return
        got_t, got_a = getattr(obj, tname), getattr(obj, aname)
        want_a = Ov if Ov is not None else T
        if got_t != T:
            ctx.fail(f"collection_alias:{kind}:{op}:target_changed" if op.startswith("alias") else f"collection_alias:{kind}:{op}:target_wrong", case,
                     f"step {i} {op}: target {tname} is {got_t!r}, expected {T!r} (a write to a non-passthrough alias shadows the target without modifying it)")
            return
        if got_a != want_a:
            ctx.fail(f"collection_alias:{kind}:{op}:alias_wrong", case, f"step {i} {op}: alias {aname} reads {got_a!r}, expected {want_a!r}")
            return
        if Ov is not None and got_a is got_t:
            ctx.fail(f"collection_alias:{kind}:{op}:entangled", case, f"step {i} {op}: the alias's local value IS the target's object")
            return
    ctx.case(case, "alias_elem_inplace" in seq and len(seq) >= 2)


def run_spec_alias(ctx, case):
    """The target holds a nested spec instance: keyword updates through the (non-passthrough) alias - in place or by copy - give
    the alias a value of its own and never edit the object the target holds."""
    seq = case["ops"]
    obj = ca_class()()
    T, Ov, n = 1, None, 1
    for i, op in enumerate(seq):
        n += 1
        try:
            if op == "alias_elem_inplace":
                obj.update_sa(x=n, _inplace=True) if n % 2 else obj.transform_sa(x=lambda v, _n=n: _n, _inplace=True)
                Ov = n
            elif op == "alias_elem_copy":
                obj = obj.update_sa(x=n)
                Ov = n
            elif op == "target_elem_inplace":
                obj.update_sub(x=n, _inplace=True)
                T = n
            elif op == "target_elem_copy":
                obj = obj.update_sub(x=n)
                T = n
            elif op == "deepcopy":
                obj = copy.deepcopy(obj)
            elif op == "delete_alias":
                if Ov is None:
                    continue
                del obj.sa
                Ov = None
        except CLEAN as e:
            ctx.fail(f"collection_alias:spec:{op}:raises:{type(e).__name__}", case, f"step {i} {op} raised {e!r}")
            return
        got_t, got_a = obj.sub.x, obj.sa.x
        if got_t != T:
            ctx.fail(f"collection_alias:spec:{op}:target_changed" if op.startswith("alias") else f"collection_alias:spec:{op}:target_wrong", case,
                     f"step {i} {op}: target sub.x is {got_t!r}, expected {T!r} (a write to a non-passthrough alias shadows the target without modifying it)")
            return
        if got_a != (Ov if Ov is not None else T):
            ctx.fail(f"collection_alias:spec:{op}:alias_wrong", case, f"step {i} {op}: alias sa.x reads {got_a!r}, expected {(Ov if Ov is not None else T)!r}")
            return
        if Ov is not None and obj.sa is obj.sub:
            ctx.fail(f"collection_alias:spec:{op}:entangled", case, f"step {i} {op}: the alias's local value IS the target's object")
            return
    ctx.case(case, "alias_elem_inplace" in seq and len(seq) >= 2)


def units(tier, seed):
    n = len(list(configs()))
    per = 8
    out = [["enum", i, min(n, i + per)] for i in range(0, n, per)]
    out += [["hyp", i] for i in range(BOUNDS[tier]["hyp_units"])]
    out += [["hyp_path", i] for i in range(4)]
    out.append(["collection_alias"])
    if tier == "thorough":
        out += [["fuzz", i] for i in range(4)]
    return out


@st.composite
def case_strategy(draw):
    cfg = draw(st.sampled_from(list(configs())))
    ops = draw(st.lists(st.sampled_from([l for l in LETTERS if not cfg.get("frozen") or l[0] in FROZEN_LETTERS]), min_size=1, max_size=30))
    return {"config": cfg, "ops": ops, "present": draw(st.booleans())}


@st.composite
def path_strategy(draw):
    return {"path": gen_path(lambda n: draw(st.integers(0, n - 1)))}


def run_unit(ctx, unit):
    b = BOUNDS[ctx.tier]
    kind = unit[0]
    if kind == "enum":
        cfgs = list(configs())[unit[1] : unit[2]]
        for cfg in cfgs:
            letters = [l for l in LETTERS if cfg["host"] == "spec" or l[0] not in ("with_alias", "with_target")]
            if cfg["shape"] != "plain":
                letters = [l for l in letters if l[0] != "with_target"]
            else:
                letters = [l for l in letters if l[0] != "droot"]
            if cfg["fallback"] != "mut":
                letters = [l for l in letters if l[0] != "mutate_last"]
            if cfg.get("frozen"):
                letters = [l for l in letters if l[0] in FROZEN_LETTERS]
            for present in (True, False):
                for n in range(1, b["seq_len"] + 1):
                    for seq in itertools.product(letters, repeat=n):
                        run_seq(ctx, {"config": cfg, "ops": list(seq), "present": present})
        ctx.count("configs_exhausted", len(cfgs))
    elif kind == "hyp":
        run_given(ctx, lambda case: run_case(ctx, case), {"case": case_strategy()}, b["examples"], ctx.seed * 1000 + unit[1])
    elif kind == "collection_alias":
        for k in CA_KINDS:
            for n in range(1, (4 if ctx.tier == "thorough" else 3) + 1):
                for seq in itertools.product(CA_LETTERS, repeat=n):
                    run_collection_alias(ctx, {"collection_alias": k, "ops": list(seq)})
        ctx.count("collection_alias_completed")
    elif kind == "hyp_path":
        run_given(ctx, lambda case: run_case(ctx, case), {"case": path_strategy()}, b["path_examples"], ctx.seed * 1000 + 500 + unit[1])
    elif kind == "fuzz":
        from vf.fuzz import common

        common.run_fuzz_unit(ctx, "c18", unit[1], decode_bytes, run_case, runs=150000, max_len=48)
    else:
        raise AssertionError(unit)


def decode_bytes(data: bytes):
    if len(data) < 2:
        return None
    if data[0] & 1:
        # raw bytes as a path string (the parser is a regular expression: let the fuzzer write it)
        try:
            return {"path": data[1:].decode("ascii")}
        except UnicodeDecodeError:
            return None
    it = iter(data[1:])

    def src(n):
        return next(it, 0) % n

    return {"path": gen_path(src)}


def coverage_extra(tier, counters):
    b = BOUNDS[tier]
    return {
        "exhaustive": True,
        "exhaustive_scope": f"{len(list(configs()))} configurations x target initially present/missing x all sequences of length <= {b['seq_len']} over the applicable letters",
    }


def replay(ctx, case):
    run_case(ctx, case)
