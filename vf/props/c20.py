"""
C20 - copying leaves process-global state untouched and is safe across threads.

Oracle: copyreg.dispatch_table is compared (whole mapping, values by identity) with a pristine snapshot taken
before the library copied anything: equal at every quiescent point - after every operation of a history
(whether it returned, raised naturally or was aborted by an exception injected at an executed library line),
and after all threads of a concurrent scenario have finished; in concurrent scenarios every thread's copy
must succeed and equal its source, under every explored interleaving.
"""

import copy
import copyreg
import itertools
import math
import sys
import types
from typing import Any

from hypothesis import strategies as st

from vf import grammar
from vf.faults import LineTracer
from vf.runner import HarnessError, run_given
from vf.sched import HarnessStall, LockPatch, Scheduler

ID = "C20"
LEVEL = "fault_enumeration"
RULE = (
    "sequential part: Hypothesis-generated histories (<= 8 ops) of copying operations over classes with module-valued and nested-spec attributes "
    "(constructor with mutable defaults, copy-on-write helpers, deepcopy of instances nested in list/dict/instance to depth 3, reset, failing calls), the table "
    "checked after every op; every executed library line of each op is then an abort point (sampled in quick, all in thorough) on a replica rebuilt by "
    "replaying the history. Concurrent part: 2 and 3 threads each deep-copying module-bearing values under a deterministic scheduler with yield points at the "
    "lines of utils/mutation.py and methods/core.py: every single-preemption schedule (thorough: every schedule with <= 2 preemptions for 2 threads, a seeded "
    "sample for 3) plus Hypothesis-drawn schedules. Non-trivial = the op performs a nested copy (depth >= 2) or is aborted inside a copy; a schedule is "
    "non-trivial if a switch happens while another thread is between __enter__ and __exit__ of the copy protection."
)
ASSUMPTIONS = [
    "interleavings are explored at line granularity of the anchored files under a scheduler that serialises threads; preemption inside a single C-level call is not reachable",
    "an exception injected at a line boundary inside _modules_copyable.__enter__/__exit__ themselves is a recorded known finding (two-variable bookkeeping cannot be made atomic), not part of the pass criterion",
]
PRISTINE = dict(copyreg.dispatch_table)
_WARN = {}  # the interpreter-global warning filters as first seen by this process: the list object and its content
_ENV = {}


def env():
    if not _ENV:
        from typing import Any, Dict, List

        from spec_classes import spec_class

        @spec_class(bootstrap=True)
        class In:
            m: Any = None
            v: List[int] = [1]

        @spec_class(bootstrap=True)
        class Out:
            item: In
            items: List[In] = []
            mods: List[Any] = [sys]
            table: Dict[str, In] = {}
            n: int = 0

        from spec_classes import spec_property

        # an instance that several threads share (none of them modifies it): one attribute is derived and cached on first read
        Sh = spec_class(bootstrap=True)(type("Sh", (), {
            "__annotations__": {"n": int, "extra": List[Any], "mods": List[Any]},
            "n": 0, "extra": [sys], "mods": spec_property(lambda self: [math, {"k": sys}], cache=True), "__module__": "vf.generated"}))
        @spec_class(bootstrap=True)
        class Own:
            """A spec class that brings its own __deepcopy__ (the library keeps user-defined ones) built on copy.deepcopy."""

            mods: Any = None

            def __deepcopy__(self, memo):
                new = type(self).__new__(type(self))
                memo[id(self)] = new
                vars(new).update(copy.deepcopy(dict(vars(self)), memo))
                return new

        _ENV.update(In=In, Out=Out, Sh=Sh, Own=Own)
    return _ENV


def _bookkeeping_slots():
    """(setter, key, value-at-rest) for every int / bool the copy-protection module keeps at module level, on its
    classes, on its singletons or in its module-level dicts - found structurally, so that moving the bookkeeping
    somewhere else does not blind this reset."""
    from spec_classes.utils import mutation

    slots, seen = [], set()

    def visit(obj, d):
        if id(obj) in seen or d > 3:
            return
        seen.add(id(obj))
        if isinstance(obj, dict):
            items, setter = list(obj.items()), obj.__setitem__
        elif isinstance(obj, type):
            items, setter = list(vars(obj).items()), (lambda k, v, o=obj: setattr(o, k, v))
        elif isinstance(getattr(obj, "__dict__", None), dict):
            items, setter = list(obj.__dict__.items()), (lambda k, v, o=obj: o.__dict__.__setitem__(k, v))
        else:
            return
        for k, v in items:
            if isinstance(k, str) and k.startswith("__") and k.endswith("__") and k != "__instance__":
                continue
            if isinstance(v, (bool, int)):
                slots.append((setter, k, v))
            elif isinstance(v, type):
                if getattr(v, "__module__", None) == mutation.__name__:
                    visit(v, d + 1)
            elif isinstance(v, dict) or getattr(type(v), "__module__", None) == mutation.__name__:
                visit(v, d + 1)

    visit(vars(mutation), 0)
    return slots


_SLOTS = []


def reset_global_state():
    """Start every attempt from the pristine table (a leak found in one attempt must not hide or cause another)."""
    for k in list(copyreg.dispatch_table):
        if k not in PRISTINE:
            del copyreg.dispatch_table[k]
    import warnings

    sys.modules.pop("colorsys", None)  # (see _private_modules: nobody here imports it by name)
    if not _WARN:
        _WARN.update(obj=warnings.filters, content=list(warnings.filters))
    elif warnings.filters is not _WARN["obj"] or list(warnings.filters) != _WARN["content"]:
        _WARN["obj"][:] = _WARN["content"]
        warnings.filters = _WARN["obj"]
        warnings._filters_mutated()
    # best effort: bring the copy-protection bookkeeping (counters / flags, wherever the library keeps them) back to
    # the values it had at rest when this process first looked
    if not _SLOTS:
        _SLOTS.append(_bookkeeping_slots())
    for setter, k, v in _SLOTS[0]:
        try:
            setter(k, v)
        except Exception:
            pass


def warn_diff():
    """The interpreter-global warning filters are global state too: a description of the change, or None."""
    import warnings

    if not _WARN:
        return None
    cur = list(warnings.filters)
    if warnings.filters is _WARN["obj"] and cur == _WARN["content"]:
        return None
    # (catch_warnings installs a copy of the list and puts the original object back on exit: a different list object at
    # rest is a leaked temporary, even when - the process already ignoring everything - its content looks the same)
    added = [f for f in cur if f not in _WARN["content"]]
    return f"warnings.filters {'is a different list object' if warnings.filters is not _WARN['obj'] else 'changed'}: {len(_WARN['content'])} -> {len(cur)} entries, added {added[:2]!r}"


def table_diff():
    cur = copyreg.dispatch_table
    extra = [k for k in cur if k not in PRISTINE or cur[k] is not PRISTINE[k]]
    missing = [k for k in PRISTINE if k not in cur]
    return extra, missing


# ---------------------------------------------------------------------------
# sequential histories. ops are JSON lists.

OPS = ["new", "new_nested", "with_item", "with_items", "with_mods", "update_item", "deepcopy", "deepcopy_nested", "reset", "reset_items", "with_bad", "with_table", "transform_item",
       "with_uncopyable", "new_uncopyable", "decl_attr_default", "decl_field_default", "plain_sub_default"]
MUST_SUCCEED = {"decl_attr_default", "decl_field_default", "plain_sub_default"}


class Uncopyable:
    """A user object whose own copy hook fails: the natural way for a copy to be abandoned half-way."""

    def __deepcopy__(self, memo):
        raise ValueError("this object cannot be copied")


def _private_modules():
    """Module objects that are NOT what an import of their name would give: one created on the spot, one loaded privately from
    a stdlib source file without being registered. 'Modules are passed through' means these very objects."""
    if "mods" not in _PRIV:
        import importlib.util
        import types

        spec = importlib.util.find_spec("colorsys")
        loaded = importlib.util.module_from_spec(spec)
        spec.loader.exec_module(loaded)
        sys.modules.pop("colorsys", None)
        _PRIV["mods"] = (types.ModuleType("vf_module_created_on_the_spot"), loaded)
    return _PRIV["mods"]


_PRIV = {}


def make_in(i):
    In = env()["In"]
    # (a module held directly is passed through without any copying; inside a container it goes through the copy protocol)
    return In(m=[math, sys, None, [_private_modules()[0]], {"k": [_private_modules()[1]]}, env()["Own"](mods=[math, {"k": sys}])][i % 6], v=[i])


def modules_of(obj, seen=None, out=None):
    """Every module object reachable from a value (through containers and spec instances)."""
    import types

    seen = set() if seen is None else seen
    out = [] if out is None else out
    if id(obj) in seen:
        return out
    seen.add(id(obj))
    if isinstance(obj, types.ModuleType):
        out.append(obj)
    elif isinstance(obj, dict):
        for v in obj.values():
            modules_of(v, seen, out)
    elif isinstance(obj, (list, tuple, set)):
        for v in obj:
            modules_of(v, seen, out)
    elif hasattr(obj, "__spec_class__") and not isinstance(obj, type):
        for v in vars(obj).values():
            modules_of(v, seen, out)
    return out


def foreign_modules(result):
    """Modules in a result that are none of the module objects the harness ever handed in (a re-imported or rebuilt module)."""
    known = {id(m) for m in (math, sys) + _private_modules()}
    return [m for m in modules_of(result) if id(m) not in known]


def apply(cur, op):
    """returns new current object; may raise."""
    Out, In = env()["Out"], env()["In"]
    name = op[0]
    if name == "new":
        return Out()
    if name == "new_nested":
        return Out(item=make_in(op[1]), items=[make_in(op[1] + 1), make_in(op[1] + 2)], mods=[math, [sys]], table={"k": make_in(op[1])})
    if cur is None:
        cur = Out()
    if name == "with_item":
        return cur.with_item(make_in(op[1]))
    if name == "with_items":
        return cur.with_items([make_in(op[1]), make_in(op[1] + 1)])
    if name == "with_mods":
        return cur.with_mods([math, sys, [math]])
    if name == "update_item":
        return cur.update_item(v=[op[1]])
    if name == "transform_item":
        return cur.transform_item(0, lambda x: x.with_v([9]), _by_index=True)
    if name == "deepcopy":
        return copy.deepcopy(cur)
    if name == "deepcopy_nested":
        r = copy.deepcopy([cur, {"a": [cur, (cur, math)]}, math])
        return r[0]
    if name == "reset":
        return cur.reset()
    if name == "reset_items":
        return cur.reset_items()
    if name == "with_bad":
        return cur.with_n("not an int")
    if name == "plain_sub_default":
        # an UNDECORATED subclass re-defaults an inherited attribute with a module-bearing value: constructing it, resetting the
        # attribute and evolving the instance all copy that class-level default
        if "OutSub" not in _ENV:
            _ENV["OutSub"] = type("OutSub", (Out,), {"mods": [math, {"k": [sys]}], "__module__": "vf.generated"})
        Sub = _ENV["OutSub"]
        s1 = Sub(item=make_in(op[1]))
        s2 = s1.with_mods([sys]).reset_mods()
        s3 = s1.with_n(op[1])
        for x in (s1, s2, s3):
            if x.mods != [math, {"k": [sys]}] or x.mods is Sub.mods:
                raise AssertionError(f"default of the undecorated subclass not copied correctly: {x.mods!r}")
        return cur
    if name in MUST_SUCCEED:
        # a class whose mutable default (declared through Attr / dataclasses.field) holds modules: declaring it, bootstrapping
        # it and constructing an instance all copy that default
        import dataclasses

        from spec_classes import Attr, spec_class

        default = [math, {"k": sys}, [op[1]]]
        decl = Attr(default=default) if name == "decl_attr_default" else dataclasses.field(default=default)
        D = spec_class(bootstrap=bool(op[1] % 2))(type("D", (), {"__annotations__": {"libs": Any, "n": int}, "libs": decl, "n": 0, "__module__": "vf.generated"}))
        d = D()
        if d.libs != default or d.libs is default:
            raise AssertionError(f"default not copied correctly: {d.libs!r}")
        return cur
    if name == "with_uncopyable":
        return cur.with_mods([math, [sys, Uncopyable()]])
    if name == "new_uncopyable":
        return Out(mods=[sys, {"k": Uncopyable()}], item=make_in(op[1]))
    if name == "with_table":
        return cur.with_table({"x": make_in(op[1]), "y": make_in(op[1] + 1)})
    raise AssertionError(op)


NESTED_OPS = {"new_nested", "with_items", "deepcopy_nested", "with_table", "with_mods", "transform_item"}


def replay_history(ops):
    cur = None
    for op in ops:
        try:
            cur = apply(cur, op)
        except (TypeError, ValueError, AttributeError, KeyError, IndexError, ImportError):
            pass  # (an ImportError is reported by the checked run of the same op)
    return cur


def run_seq(ctx, case):
    ops = case["ops"]
    reset_global_state()
    if case.get("pre_entry"):
        # the user registered a reducer for modules before using the library: it is part of "what was there before"
        PRISTINE[types.ModuleType] = _user_reducer
        copyreg.dispatch_table[types.ModuleType] = _user_reducer
    try:
        _run_seq(ctx, case)
    finally:
        if case.get("pre_entry"):
            PRISTINE.pop(types.ModuleType, None)
            copyreg.dispatch_table.pop(types.ModuleType, None)


def _user_reducer(module):
    return module.__name__


def _run_seq(ctx, case):
    ops = case["ops"]
    reset_global_state()
    replay_history(ops)  # warm-up: lazily generated helper methods get built now, so that line counts are reproducible
    reset_global_state()
    cur = None
    plan_all = case.get("all_points", False)
    only_fn = case.get("only_function")
    for i, op in enumerate(ops):
        with LineTracer(None) as tr:
            try:
                nxt = apply(cur, op)
                outcome = "ok"
            except ImportError as e:
                ctx.fail(f"seq|{op[0]}|raises:{type(e).__name__}", case, f"op {i} {op}: copying a value that holds a module tried to import it: {e!r}")
                return
            except (TypeError, ValueError, AttributeError, KeyError, IndexError) as e:
                nxt, outcome = cur, "raise"
                if "pickle 'module'" in str(e) and op[0] != "deepcopy_nested":  # (that op deep-copies a PLAIN list holding a module: Python's own refusal)
                    # whatever else an op may refuse: a module held by a value the library copies is passed through, never pickled
                    ctx.fail(f"seq|{op[0]}|module_not_copyable", case, f"op {i} {op}: copying a module-bearing value raised {e!r}")
                    return
                if op[0] in MUST_SUCCEED:
                    ctx.fail(f"seq|{op[0]}|raises:{type(e).__name__}", case, f"op {i} {op}: declaring / constructing a class whose default holds modules raised {e!r}")
                    return
        extra, missing = table_diff()
        if extra or missing:
            ctx.fail(f"seq|{op[0]}|{outcome}|table_{'leak' if extra else 'lost'}", case, f"after op {i} {op} ({outcome}): dispatch_table has extra {extra} / lost {missing}")
            return
        w = warn_diff()
        if w:
            ctx.fail(f"seq|{op[0]}|{outcome}|warning_filters_changed", case, f"after op {i} {op} ({outcome}): {w}")
            return
        if "colorsys" in sys.modules:
            ctx.fail(f"seq|{op[0]}|{outcome}|sys_modules_grew", case, f"after op {i} {op} ({outcome}): a privately loaded module was imported for real (sys.modules gained 'colorsys')")
            sys.modules.pop("colorsys", None)
            return
        if outcome == "ok":
            alien = foreign_modules(nxt)
            if alien:
                ctx.fail(f"seq|{op[0]}|module_not_passed_through", case, f"after op {i} {op}: the result holds module objects nobody handed in: {alien!r} (modules are passed through by identity)")
                return
        ctx.count(f"seq:{op[0]}:{outcome}")
        # abort points: every executed library line of this op
        total = tr.count
        points = list(range(1, total + 1)) if plan_all else sorted({1 + (j * max(1, total - 1)) // 11 for j in range(12)} if total > 12 else range(1, total + 1))
        if case.get("fault") is not None:
            points = [case["fault"][1]] if case["fault"][0] == i else []
        elif not case.get("faults", True):
            points = []
        for n in points:
            reset_global_state()
            replica = replay_history(ops[:i])
            reset_global_state()
            with LineTracer(n) as ft:
                try:
                    apply(replica, op)
                except grammar.Injected:
                    pass
                except (TypeError, ValueError, AttributeError, KeyError, IndexError, RuntimeError):
                    pass
            extra, missing = table_diff()
            where = (ft.where or "?").split(":")[-1]
            if only_fn and where != only_fn:
                continue
            if extra or missing:
                ctx.fail(f"abort|line@{where}|table_{'leak' if extra else 'lost'}", dict(case, fault=[i, n]),
                         f"op {i} {op} aborted at library line #{n} ({ft.where}): dispatch_table has extra {extra} / lost {missing}")
                return
            # (The warning filters are not judged at abort points: an exception arriving exactly on the exit line of the
            # `with warnings.catch_warnings():` statement is outside the region Python protects - the same boundary as the open
            # known finding about the copy-protection bookkeeping - and the ops that bootstrap classes do not execute the same
            # number of lines twice (process-wide caches fill), so such a point would not even replay. They are judged after every
            # completed op and after every concurrent schedule.)
            ctx.count("abort_points")
        reset_global_state()
        cur = replay_history(ops[: i + 1]) if points else nxt
        reset_global_state()
    ctx.case({k: v for k, v in case.items() if k != "fault"}, any(op[0] in NESTED_OPS for op in ops))


# ---------------------------------------------------------------------------
# concurrent scenarios

FILES = ("utils/mutation.py", "methods/core.py")
NARROW = ("utils/mutation.py",)  # the copy-protection code itself: small enough for exhaustive two-preemption schedules
CRITICAL = {"__enter__", "__exit__", "protect_via_deepcopy"}
PATCH = LockPatch()


FIRST_USE_FUNCTIONS = {"build_attr_spec"}


def _files(shape, narrow):
    if "first_use" in shape:
        return ("spec_class.py",)  # bootstrapping: the lines of build_attr_spec (one call per declared attribute)
    return NARROW if narrow else FILES


def _fresh_lazy_class(i):
    from spec_classes import spec_class

    ns = {"__annotations__": {"mods": list, "n": int}, "mods": [math, [sys]], "n": i, "__module__": "vf.generated"}
    return spec_class(type(f"Lazy{i}", (), ns))


def thread_fns(shape, n):
    Out = env()["Out"]
    values = [
        lambda: Out(item=make_in(0), items=[make_in(0), make_in(1)], mods=[math, [sys]]),
        lambda: [math, {"k": [sys, math]}, Out(item=make_in(3))],
        lambda: {"a": Out(items=[make_in(6)]), "m": math},
    ]
    fns = []
    shared = env()["Sh"]()
    for i in range(n):
        kind = shape[i % len(shape)]
        if kind == "first_use":
            # the first instance of a class nobody has used yet (module-bearing mutable default): bootstrapping + default copy
            def ffn(cls=_fresh_lazy_class(i), i=i):
                inst = cls()
                return inst.n == i and inst.mods[0] is math and inst.mods is not cls.mods, inst

            fns.append(ffn)
            continue
        if kind == "abort":
            # a copy that fails half-way (an uncopyable object behind a module) while other threads are copying: their copies
            # still succeed, and the table is back to what it was afterwards
            def afn(i=i):
                try:
                    Out(mods=[sys, {"k": Uncopyable()}], item=make_in(i))
                except (TypeError, ValueError):
                    return True, None
                return False, None

            fns.append(afn)
            continue
        if kind.startswith("shared_"):
            def sfn(kind=kind):
                if kind == "shared_deepcopy":
                    c = copy.deepcopy([shared])
                    return c[0].n == shared.n, c
                c = shared.with_mod(sys).with_n(1)  # copy-on-write helpers: the shared receiver is only read
                return c.n == 1 and shared.n == 0, c

            fns.append(sfn)
            continue
        src = values[i % len(values)]()

        if kind in ("deepcopy", "helper"):
            src = values[0]()  # copy.deepcopy of a plain container holding modules fails without the library: spec instances only

        def fn(kind=kind, src=src):
            if kind == "deepcopy":
                c = copy.deepcopy(src)
            elif kind == "helper":
                c = src.with_n(5).with_n(0)
            else:
                from spec_classes.utils.mutation import protect_via_deepcopy

                c = protect_via_deepcopy(src)
            return c == src, c

        fns.append(fn)
    return fns


def ensure_patched():
    if not PATCH.patched:
        PATCH.install()
        # the singleton created at import time holds a real lock: give it a scheduler-aware one per run instead
    return PATCH


def run_conc(ctx, case):
    from spec_classes.utils import mutation

    env()
    ensure_patched()
    reset_global_state()
    sched = Scheduler(case["schedule"], files=_files(case["shape"], case.get("narrow")), timeout=30.0)
    sched.critical_functions = CRITICAL
    if "first_use" in case["shape"]:
        sched.only_functions = FIRST_USE_FUNCTIONS
        sched.critical_functions = FIRST_USE_FUNCTIONS
    PATCH.current = sched
    # whatever locks the library holds at module / class / singleton level become scheduler-aware for this run
    restore = PATCH.swap_live_locks(sched)
    try:
        fns = thread_fns(case["shape"], case["threads"])
        try:
            threads = sched.run(fns)
        except HarnessStall as e:
            raise HarnessError(f"C20 scheduler: {e}")
    finally:
        PATCH.current = None
        restore()
    for t in threads:
        if t.error is not None:
            kind = "deadlock" if type(t.error).__name__ == "Deadlock" else type(t.error).__name__
            ctx.fail(f"conc|thread_error:{kind}", case, f"thread {t.idx} raised {t.error!r} under schedule {case['schedule']} (switches {sched.switches})")
            return None
        if not t.result[0]:
            ctx.fail("conc|copy_not_equal", case, f"thread {t.idx}: copy differs from its source under schedule {case['schedule']}")
            return None
    extra, missing = table_diff()
    if extra or missing:
        ctx.fail(f"conc|table_{'leak' if extra else 'lost'}", case, f"after all threads finished: dispatch_table has extra {extra} / lost {missing}; schedule {case['schedule']}, switches {sched.switches}")
        return None
    w = warn_diff()
    if w:
        ctx.fail("conc|warning_filters_changed", case, f"after all threads finished: {w}; schedule {case['schedule']}, switches {sched.switches}")
        return None
    ctx.count("conc_runs")
    ctx.case(case, sched.preempted_inside_critical and bool(sched.switches))
    return sched


def count_steps(shape, threads, narrow=False):
    from spec_classes.utils import mutation

    env()
    ensure_patched()
    reset_global_state()
    sched = Scheduler([], files=_files(shape, narrow), timeout=30.0)
    if "first_use" in shape:
        sched.only_functions = FIRST_USE_FUNCTIONS
    sched.record = True
    PATCH.current = sched
    restore = PATCH.swap_live_locks(sched)
    try:
        sched.run(thread_fns(shape, threads))
    finally:
        PATCH.current = None
        restore()
    # steps executed by thread 0 before it finishes = positions where a first preemption can happen
    first = [i + 1 for i, (t, _) in enumerate(sched.trace_positions) if t == 0]
    return sched.step, first


SHAPES = [["deepcopy", "deepcopy"], ["helper", "deepcopy"], ["protect", "helper"], ["deepcopy", "protect", "helper"],
          ["shared_deepcopy", "shared_helper"], ["shared_helper", "shared_helper"], ["first_use", "first_use"], ["deepcopy", "abort"]]

BOUNDS = {
    "quick": dict(seq_examples=40, seq_units=8, conc_hyp=40, double=False),
    "thorough": dict(seq_examples=500, seq_units=12, conc_hyp=600, double=True),
}


def units(tier, seed):
    b = BOUNDS[tier]
    out = [["seq", i] for i in range(b["seq_units"])]
    for si, shape in enumerate(SHAPES):
        n = len(shape)
        for shard in range(4):
            out.append(["single", si, n, shard, 4])
        if n == 2:
            for shard in range(8):
                out.append(["double", si, n, shard, 8, 1])  # copy-protection lines only
            if b["double"] and "abort" not in shape:  # (the aborting-copy shape: the copy-protection lines suffice)
                for shard in range(16):
                    out.append(["double", si, n, shard, 16, 0])
    out += [["conc_hyp", i] for i in range(4)]
    return out


@st.composite
def seq_case(draw, all_points):
    ops = draw(st.lists(st.tuples(st.sampled_from(OPS), st.integers(0, 5)).map(list), min_size=1, max_size=8))
    return {"kind": "seq", "ops": ops, "all_points": all_points, "pre_entry": draw(st.integers(0, 3)) == 0}


@st.composite
def conc_case(draw):
    shape = draw(st.sampled_from(SHAPES))
    n = len(shape)
    k = draw(st.integers(1, 4))
    schedule = sorted([[draw(st.integers(1, 400)), draw(st.integers(0, n - 1))] for _ in range(k)])
    return {"kind": "conc", "shape": shape, "threads": n, "schedule": schedule}


def run_case(ctx, case):
    if case["kind"] == "seq":
        run_seq(ctx, case)
    else:
        run_conc(ctx, case)


def run_unit(ctx, unit):
    b = BOUNDS[ctx.tier]
    kind = unit[0]
    if kind == "seq":
        run_given(ctx, lambda case: run_case(ctx, case), {"case": seq_case(ctx.tier == "thorough")}, b["seq_examples"], ctx.seed * 1000 + unit[1])
    elif kind == "single":
        shape = SHAPES[unit[1]]
        total, first = count_steps(shape, unit[2])
        j = 0
        for s in range(1, total + 1):
            for target in range(1, unit[2]):
                j += 1
                if j % unit[4] != unit[3]:
                    continue
                if run_conc(ctx, {"kind": "conc", "shape": shape, "threads": unit[2], "schedule": [[s, target], [s + 1, 0]] if False else [[s, target]]}) is None and ctx.failures:
                    return
        ctx.count("single_preemption_shards_completed")
    elif kind == "double":
        shape = SHAPES[unit[1]]
        narrow = bool(unit[5])
        total, first = count_steps(shape, unit[2], narrow)
        j = 0
        # quick: a seeded fifth of the pairs over the copy-protection lines (first_use: all, the space is small);
        # thorough: all pairs over the copy-protection lines, a seeded third of the pairs over both files
        stride = 1 if "first_use" in shape or (ctx.tier == "thorough" and narrow) else (3 if ctx.tier == "thorough" else 5)
        for s1 in range(1, total + 1):
            for s2 in range(s1 + 1, total + 1):
                j += 1
                if j % unit[4] != unit[3]:
                    continue
                if (j // unit[4] + ctx.seed) % stride:
                    continue
                run_conc(ctx, {"kind": "conc", "shape": shape, "threads": 2, "schedule": [[s1, 1], [s2, 0]], "narrow": narrow})
                if ctx.failures:
                    return
        ctx.count("double_preemption_shards_completed")
    elif kind == "conc_hyp":
        run_given(ctx, lambda case: run_case(ctx, case), {"case": conc_case()}, b["conc_hyp"], ctx.seed * 1000 + 700 + unit[1])
    else:
        raise AssertionError(unit)


def coverage_extra(tier, counters):
    return {"exhaustive": True,
            "exhaustive_scope": "every single-preemption schedule (line granularity, utils/mutation.py + methods/core.py) for the 6 copying thread shapes; every single- and two-preemption schedule at the lines of "
            "build_attr_spec for two threads making the first use of two different lazily bootstrapped classes"
            + ("; every" if tier == "thorough" else "; a seeded fifth of the") + " two-preemption schedules at the lines of utils/mutation.py for the 2-thread shapes"
            + (" and a seeded third of them at the lines of both files" if tier == "thorough" else "")}


def replay(ctx, case):
    run_case(ctx, case)
