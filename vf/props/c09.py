"""
C09 - the generated constructor assigns exactly what the class hierarchy specifies.

Oracle: reference resolution over the hierarchy *descriptor*: prepared keyword, else nearest default along the
MRO, else missing; attributes owned by a parent spec class pass through that parent's constructor (the model
applies a hand-written constructor's f, fed with the keyword, the instance-level default, or its own signature
default); unknown keyword => TypeError unless an overflow attribute is configured (which then holds exactly the
unknown keywords); missing required key => TypeError; __post_init__ runs exactly once and sees the final state.
"""
from __future__ import annotations

import dataclasses
import itertools

from hypothesis import strategies as st

from vf import grammar
from vf.runner import run_given

ID = "C09"
LEVEL = "exploration"
RULE = (
    "cases = (generated hierarchy of depth <= 3: spec parents with generated or hand-written constructors of the documented shape, two spec parents, "
    "plain subclasses, re-declared and merely re-defaulted attributes, init=False attributes, key with/without default (passed positionally or by name), "
    "overflow attribute, preparers, __post_init__ defined on the decorated class / a plain subclass / a parent) x keyword sets: every subset of the init-enabled "
    "attributes with conforming values (<= 2^6), plus each attribute ill-typed, plus unknown names. Non-trivial = hierarchy depth >= 2 with an inherited-and-"
    "re-defaulted or re-declared attribute and >= 1 keyword routed to a parent; distinct = canonical JSON of (hierarchy, keywords)."
)
ASSUMPTIONS = [
    "classes whose own __init__ is hand-written are outside the statement; hand-written constructors appear on parents only",
    "'nearest default along the MRO' is read literally: the first class in type(obj).__mro__ whose own namespace gives the name a plain value or an Attr/field default",
    "Attr flags other than init are not asserted here",
]

NAMES = ["a", "b", "c", "d", "e", "f"]
VALS = {"int": [3, -4, 0], "str": ["x", " y ", ""]}
BAD = {"int": "bad", "str": 7}


def f_user(T, v):
    return v + 1 if T == "int" else v + "!"


def prep(how, v):
    return grammar.apply_preparer(how, v) if how else v


# ---------------------------------------------------------------------------
# generation


def gen_hierarchy(src):
    shape = src.pick(["chain1", "chain2", "chain2", "chain3", "two_parents", "two_parents", "plain_mid"])
    classes = []
    avail = list(NAMES)

    def new_attrs(n, allow_nodefault=True):
        out = []
        for _ in range(n):
            if not avail:
                break
            name = avail.pop(0)
            T = src.pick(["int", "int", "str"])
            style = src.pick(["none", "lit", "lit", "attr_default", "attr_factory", "field_default"]) if allow_nodefault else src.pick(["lit", "attr_default"])
            a = {"name": name, "type": T, "default": None if style == "none" else [style, src.pick(VALS[T])]}
            if style in ("attr_default", "attr_factory") and src.chance(1, 6):
                a["init"] = False
            out.append(a)
        return out

    def mk(name, bases, n_attrs, may_user_init):
        c = {"name": name, "kind": "spec", "bases": bases, "attrs": new_attrs(n_attrs), "redefaults": {}, "prepare": {}, "lazy": src.chance(1, 2)}
        if may_user_init and src.chance(1, 3):
            c["user_init"] = [{"name": a["name"], "sig_default": src.pick(VALS[a["type"]])} for a in c["attrs"]]
            for a in c["attrs"]:
                a.pop("init", None)
                if src.chance(1, 2):
                    a["default"] = None  # documented shape: plain annotations, defaults live in the signature
                elif a["default"] and a["default"][0] != "lit":
                    a["default"] = ["lit", a["default"][1]]
        for a in c["attrs"]:
            if src.chance(1, 5):
                c["prepare"][a["name"]] = "abs" if a["type"] == "int" else "strip"
        return c

    if shape == "plain_mid":
        # spec class <- undecorated class <- spec class
        A = mk("A", [], 1 + src.choice(2), True)
        Y = {"name": "Y", "kind": "plain", "bases": ["A"], "attrs": [], "redefaults": {}, "prepare": {}}
        for a in A["attrs"]:
            if src.chance(1, 3) and a.get("init") is not False:
                Y["redefaults"][a["name"]] = src.pick(VALS[a["type"]])
        C = mk("C", ["Y"], 1 + src.choice(2), False)
        classes = [A, Y, C]
    elif shape == "two_parents":
        A = mk("A", [], 1 + src.choice(2), True)
        B = mk("B", [], 1 + src.choice(2), True)
        C = mk("C", ["A", "B"], src.choice(2), False)
        classes = [A, B, C]
    else:
        depth = int(shape[-1])
        prev = []
        for i in range(depth):
            c = mk("ABC"[i], prev, 1 + src.choice(2) if i == 0 else src.choice(3), i < depth - 1)
            classes.append(c)
            prev = [c["name"]]
    # key / overflow on a root class
    root = classes[0]
    for c in classes:
        if c["kind"] == "plain" and root["attrs"]:
            c["redefaults"].pop(root["attrs"][0]["name"], None)  # the (potential) key is never re-defaulted by a plain class
    if src.chance(1, 3) and root["attrs"]:
        k = root["attrs"][0]
        k["type"] = "str"
        k.pop("init", None)
        if k["default"]:
            k["default"] = [k["default"][0], src.pick(VALS["str"])]  # (incl. a default that comes from a factory: the key is optional then, too)
        root["key"] = k["name"]
        root["prepare"].pop(k["name"], None)
    if shape == "two_parents" and root.get("key") and src.chance(2, 3) and classes[1]["attrs"] and not classes[1].get("user_init"):
        # the second parent is keyed too, by an attribute of its own: the class under construction answers to the first
        # parent's key - the second parent's key is an ordinary attribute for it, and may stay missing (which parent's key
        # would count if only the second one had one is not documented: not generated)
        k = classes[1]["attrs"][0]
        k["type"] = "str"
        k.pop("init", None)
        if k["default"]:
            k["default"] = [k["default"][0] if k["default"][0] != "attr_factory" else "attr_default", src.pick(VALS["str"])]
        classes[1]["key"] = k["name"]
        classes[1]["prepare"].pop(k["name"], None)
    last = classes[-1]
    if src.chance(1, 4):
        (root if len(classes) > 1 and root["kind"] == "spec" and not root.get("user_init") and src.chance(1, 2) else last)["overflow"] = "extra"
    # re-declare / re-default inherited attributes in non-root classes
    for c in classes[1:]:
        if c["kind"] != "spec":
            continue  # undecorated classes only re-default (below / at creation), they declare nothing
        inherited = _inherited(classes, c)
        for name, (T, owner) in inherited.items():
            if classes[0].get("key") == name and classes[0].get("user_init"):
                # a child that takes over the key of a parent with a hand-written constructor: that constructor is then handed
                # the MISSING placeholder for its key parameter (pinned by the repository's own test-suite) - what it does with
                # it is its own business, so this shape has no model
                continue
            r = src.choice(6)
            if r == 0:
                c["redefaults"][name] = src.pick(VALS[T])
            elif r == 1 and not c.get("user_init"):  # a hand-written constructor takes exactly the attributes its class declares
                # re-declaring without a default is only generated over a plain inherited default (what happens to an inherited
                # default_factory / init=False flag under a bare re-annotation is not documented)
                inh = next((a for x in classes for a in x["attrs"] if a["name"] == name), None)
                plain = inh is not None and inh.get("init") is not False and (inh["default"] is None or inh["default"][0] == "lit")
                style = src.pick(["none", "lit", "attr_default"]) if plain else src.pick(["lit", "attr_default"])
                c["attrs"].append({"name": name, "type": T, "default": None if style == "none" else [style, src.pick(VALS[T])], "redeclared": True})
    # optional plain subclass
    inst = last["name"]
    if src.chance(1, 3):
        inherited = _inherited(classes + [{"name": "Z", "bases": [last["name"]], "attrs": []}], {"name": "Z", "bases": [last["name"]], "attrs": []})
        q = {"name": "Q", "kind": "plain", "bases": [last["name"]], "attrs": [], "redefaults": {}, "prepare": {}}
        for name, (T, owner) in inherited.items():
            if src.chance(1, 3) and classes[0].get("key") != name:
                q["redefaults"][name] = src.pick(VALS[T])
        classes.append(q)
        inst = "Q"
    # __post_init__ somewhere
    pi = src.choice(4)
    if pi == 1:
        last["post_init"] = True
    elif pi == 2 and inst == "Q":
        classes[-1]["post_init"] = True
    elif pi == 3 and len(classes) > 1 and not classes[0].get("user_init"):
        classes[0]["post_init"] = True
    return {"classes": classes, "instance_class": inst}


def _mro(classes, name):
    """C3 linearisation for our shapes (chains and C(A, B))."""
    by = {c["name"]: c for c in classes}
    out = [name]
    for b in by[name]["bases"]:
        for x in _mro(classes, b):
            if x not in out:
                out.append(x)
    if len(by[name]["bases"]) == 2:  # C(A, B): C, A, B
        out = [name] + _mro(classes, by[name]["bases"][0]) + [x for x in _mro(classes, by[name]["bases"][1])]
    return out


def _inherited(classes, c):
    by = {x["name"]: x for x in classes}
    out = {}
    for n in _mro(classes, c["name"])[1:][::-1]:
        for a in by[n]["attrs"]:
            out[a["name"]] = (a["type"], n)
    return out


# ---------------------------------------------------------------------------
# building real classes


class Hier:
    def __init__(self, desc):
        from spec_classes import spec_class
        from spec_classes.types import Attr

        self.desc = desc
        self.classes = {}
        self.post_init_calls = []
        for c in desc["classes"]:
            ns, ann = {}, {}
            for a in c["attrs"]:
                ann[a["name"]] = int if a["type"] == "int" else str
                d = a["default"]
                flags = {"init": False} if a.get("init") is False else {}
                if d is None:
                    if flags:
                        ns[a["name"]] = Attr(**flags)
                elif d[0] == "lit":
                    ns[a["name"]] = d[1]
                elif d[0] == "attr_default":
                    ns[a["name"]] = Attr(default=d[1], **flags)
                elif d[0] == "attr_factory":
                    ns[a["name"]] = Attr(default_factory=(lambda v=d[1]: v), **flags)
                elif d[0] == "field_default":
                    ns[a["name"]] = dataclasses.field(default=d[1])
            for n, v in c.get("redefaults", {}).items():
                ns[n] = v
            for n, how in c.get("prepare", {}).items():
                ns[f"_prepare_{n}"] = (lambda self, v, how=how: grammar.apply_preparer(how, v))
            if c.get("user_init"):
                ns["__init__"] = self._user_init(c)
            if c.get("post_init"):
                hier = self
                cname = c["name"]

                def __post_init__(self, cname=cname):
                    hier.post_init_calls.append((cname, dict(object.__getattribute__(self, "__dict__"))))

                ns["__post_init__"] = __post_init__
            if ann:
                ns["__annotations__"] = ann
            ns["__module__"] = "vf.generated"
            cls = type(c["name"], tuple(self.classes[b] for b in c["bases"]), ns)
            if c["kind"] == "spec":
                opts = {"bootstrap": not c.get("lazy", False)}
                if c.get("key"):
                    opts["key"] = c["key"]
                if c.get("overflow"):
                    opts["init_overflow_attr"] = c["overflow"]
                cls = spec_class(**opts)(cls)
            self.classes[c["name"]] = cls

    def _user_init(self, c):
        params = c["user_init"]
        types = {a["name"]: a["type"] for a in c["attrs"]}
        src_lines = ["def __init__(self, " + ", ".join(f"{p['name']}={p['sig_default']!r}" for p in params) + "):"]
        for p in params:
            op = "+ 1" if types[p["name"]] == "int" else "+ '!'"
            src_lines.append(f"    self.{p['name']} = {p['name']} {op}")
        ns = {}
        exec("\n".join(src_lines), ns)  # noqa: S102 - the documented hand-written constructor shape
        return ns["__init__"]

    @property
    def cls(self):
        return self.classes[self.desc["instance_class"]]


# ---------------------------------------------------------------------------
# the reference model


class Model:
    def __init__(self, desc):
        self.desc = desc
        self.by = {c["name"]: c for c in desc["classes"]}
        self.inst = desc["instance_class"]
        self.mro = _mro(desc["classes"], self.inst)
        # the class whose decorator governs the instance: nearest spec class
        self.spec_cls = next(n for n in self.mro if self.by[n]["kind"] == "spec")

    def attr_info(self, name):
        """(type, owner, init) - owner = most derived class (from the governing spec class up) that declares it."""
        for n in self.mro:
            if self.by[n]["kind"] != "spec":
                continue
            for a in self.by[n]["attrs"]:
                if a["name"] == name:
                    return a["type"], n, self._init_flag(name)
        raise KeyError(name)

    def _init_flag(self, name):
        # init=False is declared with the Attr on the owning declaration; a re-default keeps it
        for n in self.mro:
            for a in self.by[n].get("attrs", []):
                if a["name"] == name:
                    return a.get("init") is not False
        return True

    def all_attrs(self):
        out = []
        for n in self.mro[::-1]:
            if self.by[n]["kind"] != "spec":
                continue
            for a in self.by[n]["attrs"]:
                if a["name"] not in out:
                    out.append(a["name"])
        return out

    def nearest_default(self, name):
        """first class along the MRO whose own namespace gives `name` a value / Attr default / factory; else ABSENT"""
        for n in self.mro:
            c = self.by[n]
            if name in c.get("redefaults", {}):
                return True, c["redefaults"][name]
            for a in c.get("attrs", []):
                if a["name"] == name and a["default"] is not None:
                    return True, a["default"][1]
        return False, None

    def preparer(self, name):
        for n in self.mro:
            how = self.by[n].get("prepare", {}).get(name)
            if how:
                return how
        return None

    def key(self):
        for n in self.mro:
            if self.by[n].get("key"):
                return self.by[n]["key"]
        return None

    def overflow(self):
        for n in self.mro:  # the overflow attribute is class configuration: inherited like the key
            if self.by[n].get("overflow"):
                return self.by[n]["overflow"]
        return None

    def construct(self, kwargs):
        """returns ("ok", state) | ("raise", TypeError)"""
        names = self.all_attrs()
        known = [n for n in names if self.attr_info(n)[2]]
        unknown = {k: v for k, v in kwargs.items() if k not in known}
        if unknown and not self.overflow():
            return "raise", TypeError
        key = self.key()
        if key and key not in kwargs and not self.nearest_default(key)[0]:
            return "raise", TypeError
        state = {}

        def assign(name, v):
            T = self.attr_info(name)[0]
            v = prep(self.preparer(name), v)
            if not isinstance(v, int if T == "int" else str) or (T == "str" and not isinstance(v, str)):
                raise TypeError(name)
            state[name] = v

        try:
            # parents first (reversed MRO), each initialising what it owns
            for n in self.mro[::-1]:
                c = self.by[n]
                if c["kind"] != "spec" or n == self.spec_cls:
                    continue
                owned = [a for a in names if self.attr_info(a)[1] == n]
                if c.get("user_init"):
                    for p in c["user_init"]:
                        name, T = p["name"], next(a["type"] for a in c["attrs"] if a["name"] == p["name"])
                        if name in owned and self.attr_info(name)[2]:
                            if name in kwargs:
                                v = kwargs[name]
                            else:
                                has, dv = self.nearest_default(name)
                                v = dv if has else p["sig_default"]
                        else:
                            v = p["sig_default"]  # re-declared below: the parent only sees its own signature default
                        if not isinstance(v, int if T == "int" else str):
                            raise TypeError(name)
                        assign(name, f_user(T, v))
                else:
                    for name in owned:
                        if name in kwargs and self.attr_info(name)[2]:  # (init=False: never an argument, but the default is assigned)
                            assign(name, kwargs[name])
                        else:
                            has, dv = self.nearest_default(name)
                            if has:
                                assign(name, dv)
            for name in names:
                if self.attr_info(name)[1] != self.spec_cls:
                    continue
                if name in kwargs and self.attr_info(name)[2]:
                    assign(name, kwargs[name])
                else:
                    has, dv = self.nearest_default(name)
                    if has:
                        assign(name, dv)
        except TypeError:
            return "raise", (TypeError, ValueError)
        if self.overflow():
            state[self.overflow()] = dict(unknown)
        return "ok", state

    def post_init_class(self):
        """Python's own lookup of __post_init__ on the instance's class."""
        for n in self.mro:
            if self.by[n].get("post_init"):
                return n
        return None


def run_case(ctx, case):
    desc = case["hier"]
    hier = Hier(desc)
    model = Model(desc)
    kwargs = dict(case["kwargs"])
    positional = case.get("positional")
    route = "ctor"
    outcome = "ok"
    try:
        if positional and model.key() in kwargs:
            kv = kwargs.pop(model.key())
            obj = hier.cls(kv, **kwargs)
            kwargs[model.key()] = kv
        else:
            obj = hier.cls(**kwargs)
    except (TypeError, ValueError, AttributeError) as e:
        outcome, obj = "raise", e
    exp = model.construct(case["kwargs"])
    shape = _shape(desc)
    ctx.count(f"{exp[0]}:{shape}")
    if exp[0] == "raise":
        if outcome != "raise":
            ctx.fail(f"{route}|missing_raise|{shape}", case, f"{desc['instance_class']}(**{case['kwargs']}) succeeded: {object.__getattribute__(obj, '__dict__')}; expected {exp[1]}")
            return
        if not isinstance(obj, exp[1]):
            ctx.fail(f"{route}|wrong_exception:{type(obj).__name__}|{shape}", case, f"raised {obj!r}; expected {exp[1]}")
            return
        ctx.case(case, _nontrivial(desc, model, case["kwargs"]))
        return
    if outcome == "raise":
        ctx.fail(f"{route}|unexpected_raise:{type(obj).__name__}|{shape}", case, f"{desc['instance_class']}(**{case['kwargs']}) raised {obj!r}; expected state {exp[1]}")
        return
    got = {k: v for k, v in object.__getattribute__(obj, "__dict__").items() if not k.startswith("__")}
    # init=False attributes are observed the way a user observes them ("each managed attribute equals ... the nearest default"):
    # whether the value sits in the instance or is read through from the class is storage, not state
    from spec_classes.types import MISSING as _MISSING

    for n in model.all_attrs():
        if not model.attr_info(n)[2] and n not in got:
            v = getattr(obj, n, _MISSING)
            if v is not _MISSING:
                got[n] = v
    if got != exp[1]:
        diffs = sorted(n for n in set(got) | set(exp[1]) if got.get(n, "<missing>") != exp[1].get(n, "<missing>"))
        kinds = ",".join(sorted({_attr_kind(desc, model, n, case["kwargs"]) for n in diffs}))
        ctx.fail(f"{route}|state|{kinds}", case, f"{desc['instance_class']}(**{case['kwargs']}): attributes {diffs} are {[got.get(n, '<missing>') for n in diffs]}, the hierarchy specifies {[exp[1].get(n, '<missing>') for n in diffs]}")
        return
    pic = model.post_init_class()
    calls = hier.post_init_calls
    if pic is None:
        if calls:
            ctx.fail(f"{route}|post_init_spurious", case, f"__post_init__ ran {len(calls)} times although none is defined")
            return
    else:
        if len(calls) != 1 or calls[0][0] != pic:
            ctx.fail(f"{route}|post_init_count|{'on_' + ('plain_subclass' if model.by[pic]['kind'] == 'plain' else 'decorated' if pic == model.spec_cls else 'parent')}", case,
                     f"__post_init__ defined on {pic} ran {[c[0] for c in calls]} (expected exactly once, {pic}'s)")
            return
        seen = {k: v for k, v in calls[0][1].items() if not k.startswith("__")}
        if seen != exp[1]:
            ctx.fail(f"{route}|post_init_early", case, f"__post_init__ observed {seen}, final state {exp[1]}")
            return
    ctx.case(case, _nontrivial(desc, model, case["kwargs"]))


def _shape(desc):
    n = len(desc["classes"])
    ui = any(c.get("user_init") for c in desc["classes"])
    two = any(len(c["bases"]) == 2 for c in desc["classes"])
    return f"{'two' if two else 'chain'}{n}{'+userinit' if ui else ''}"


def _attr_kind(desc, model, name, kwargs):
    try:
        T, owner, init = model.attr_info(name)
    except KeyError:
        return "overflow" if name == model.overflow() else "unknown"
    parts = ["own" if owner == model.spec_cls else ("userparent" if model.by[owner].get("user_init") else "parent")]
    parts.append("kw" if name in kwargs else "default")
    if any(name in c.get("redefaults", {}) for c in desc["classes"]):
        parts.append("redefaulted")
    if any(a.get("redeclared") and a["name"] == name for c in desc["classes"] for a in c["attrs"]):
        parts.append("redeclared")
    if not init:
        parts.append("noinit")
    if model.preparer(name):
        parts.append("prepared")
    return "-".join(parts)


def _nontrivial(desc, model, kwargs):
    deep = len([c for c in desc["classes"]]) >= 2
    redef = any(c.get("redefaults") or any(a.get("redeclared") for a in c["attrs"]) for c in desc["classes"])
    routed = any(model.attr_info(k)[1] != model.spec_cls for k in kwargs if k in model.all_attrs())
    return deep and redef and routed


def kwarg_sets(desc):
    model = Model(desc)
    names = [n for n in model.all_attrs() if model.attr_info(n)[2]]
    vals = {n: VALS[model.attr_info(n)[0]][(i + len(n)) % 3] for i, n in enumerate(names)}
    out = []
    for r in range(len(names) + 1):
        for combo in itertools.combinations(names, r):
            out.append(({n: vals[n] for n in combo}, False))
    for n in names:
        out.append(({n: BAD[model.attr_info(n)[0]]}, False))
        out.append(({n: VALS[model.attr_info(n)[0]][1]}, False))
    out.append(({"zzz": 1}, False))
    out.append((dict({names[0]: vals[names[0]]} if names else {}, zzz=1, yyy="s"), False))
    if model.overflow():
        # a keyword named like the overflow attribute itself is an unknown keyword like any other
        out.append(({model.overflow(): {"q": 1}, "zzz": 3}, False))
        out.append((dict({n: vals[n] for n in names}, **{model.overflow(): {"q": 1}}), False))
    noinit = [n for n in model.all_attrs() if not model.attr_info(n)[2]]
    for n in noinit:
        out.append(({n: 1}, False))
    if model.key():
        k = model.key()
        out.append(({k: "kk"}, True))
        out.append((dict({n: vals[n] for n in names}, **{k: "kk"}), True))
    return out


@st.composite
def hier_strategy(draw):
    return gen_hierarchy(grammar.HypSource(draw))


def run_hier(ctx, desc):
    for kw, positional in kwarg_sets(desc):
        run_case(ctx, {"hier": desc, "kwargs": kw, "positional": positional})


BOUNDS = {"quick": dict(examples=250, units=16), "thorough": dict(examples=700, units=16)}


def units(tier, seed):
    return [["hyp", i] for i in range(BOUNDS[tier]["units"])]


def run_unit(ctx, unit):
    b = BOUNDS[ctx.tier]
    run_given(ctx, lambda desc: run_hier(ctx, desc), {"desc": hier_strategy()}, b["examples"], ctx.seed * 1000 + unit[1])


def replay(ctx, case):
    run_case(ctx, case)
