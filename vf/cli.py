"""./check <ID> [--tier quick|thorough] [--replay <file>]"""

import argparse
import importlib
import os
import sys
import traceback

HERE = os.path.dirname(os.path.dirname(os.path.abspath(__file__)))


def main():
    ap = argparse.ArgumentParser()
    ap.add_argument("prop")
    ap.add_argument("--tier", default=os.environ.get("VERIF_TIER") or "quick", choices=["quick", "thorough"])
    ap.add_argument("--replay")
    ns = ap.parse_args()

    repo = os.path.abspath(os.environ.get("VF_REPO", "/repo"))
    deps = os.path.join(HERE, ".deps")
    sys.path[:0] = [repo, HERE]
    if os.path.isdir(deps):
        sys.path.append(deps)
    os.chdir(HERE)
    try:
        seed = int(os.environ.get("VERIF_SEED", "1") or "1")
    except ValueError:
        seed = 1

    try:
        import warnings

        warnings.simplefilter("ignore")
        import spec_classes

        if not os.path.abspath(spec_classes.__file__).startswith(repo + os.sep):
            print(f"HARNESS-ERROR: spec_classes imported from {spec_classes.__file__}, not {repo}", file=sys.stderr)
            return 2
        from vf import runner

        prop = importlib.import_module(f"vf.props.{ns.prop.lower()}")
    except Exception:
        # A tree that no longer imports is a harness error (it would not pass
        # its own test-suite either), never a property violation.
        print("HARNESS-ERROR: import failed\n" + traceback.format_exc(), file=sys.stderr)
        return 2

    try:
        if ns.replay:
            return runner.run_replay(prop, ns.prop.upper(), ns.replay)
        return runner.run_check(prop, ns.prop.upper(), ns.tier, seed)
    except Exception:
        print("HARNESS-ERROR:\n" + traceback.format_exc(), file=sys.stderr)
        return 2


if __name__ == "__main__":
    sys.exit(main())
