"""
C17 - every generated method accepts exactly what its advertised signature says.

For every generated method of a generated class (constructor, three top-level, four scalar and four element
helpers per attribute) the introspectable signature is compared with behaviour:
 (1) every advertised parameter can be supplied by keyword without an argument-binding TypeError;
 (2) the value reaches the behaviour (behavioural differential: _inplace => receiver returned, _if=False => receiver
     untouched, nested keyword k=v => the nested object has k == v, overflow keywords end up in the overflow attribute, ...);
 (3) omitting a non-virtual parameter == passing its advertised default;
 (4) a keyword outside the signature raises TypeError and leaves the receiver unchanged (also with _inplace=True);
 (5) the nested-attribute keywords are exactly the init-enabled attributes of the nested class (computed from the descriptor).
"""
from __future__ import annotations

import inspect
import itertools

from hypothesis import strategies as st

from vf import grammar, ops
from vf.grammar import SINGULAR, elem_type, family, is_collection
from vf.runner import run_given
from vf.snapshot import Snapshot, same_state

ID = "C17"
LEVEL = "exploration"
RULE = (
    "cases = (generated class world incl. nested classes with an init=False attribute and with an overflow attribute; one generated method; one test of "
    "its signature): each single advertised parameter (by keyword, behavioural check), each pair of advertised keywords (binding only), default-vs-omitted for "
    "non-virtual parameters, and unadvertised names (attributes of other classes, init=False attributes, the overflow attribute's name, private names, "
    "misspellings) with and without _inplace=True. Enumerated per world over all methods and parameters; worlds are Hypothesis-generated. Non-trivial = the method "
    "has >= 1 nested-attribute keyword, or the parameter under test is keyword-only; distinct = canonical JSON of (world, method, test)."
)
ASSUMPTIONS = [
    "a valid base call is constructed from the descriptor (a keyed nested class gets its key, an addressed element exists)",
    "argument-binding errors are recognised by their origin ('<method>() got ...' / '... missing ... required'), never by exception class alone",
    "advertised defaults of virtual (nested-attribute) parameters are documentation only and are not compared with behaviour",
    "a signature that advertises **overflow has no 'outside' keywords",
]
PROFILE = dict(grammar.PROFILES["data_plain"], with_v=True, flags=False, invalidation=False, max_attrs=6, frozen_nested=True, cached_props=True)
NESTED_ATTRS = {"U": {"a": ["int"], "b": ["str"]}, "N": {"k": ["str"], "v": ["int"], "notes": ["list", ["str"]]}, "V": {"w": ["int"]}}
GOOD = {"int": [4, 0], "str": ["p", ""], "list": [["list", ["n"]], ["list", ["m", "n"]]]}
OUTSIDE = ["zzz", "h", "opts", "_private", "_inplce", "_iff", "bogus_attr"]


def binding_error(name, e):
    if not isinstance(e, TypeError):
        return False
    msg = str(e)
    return msg.startswith(f"{name}() ") or f" {name}() " in msg or ("required" in msg and "argument" in msg and name in msg)


def populated_kwargs(world):
    """Constructor keywords giving every attribute a non-trivial conforming value (two elements per container)."""
    kw = {}
    for name, a in world.attrs().items():
        T = a["type"]
        k = T[0]
        if k == "list":
            E = T[1]
            kw[name] = ["list", [_elem(E, 0), _elem(E, 1)]]
        elif k == "set":
            kw[name] = ["set", [_elem(T[1], 0), _elem(T[1], 1)]]
        elif k == "dict":
            kw[name] = ["dict", [["a", _elem(T[2], 0)], ["b", _elem(T[2], 1)]]]
        elif k in ("keyedlist", "keyedset"):
            kw[name] = ["kl" if k == "keyedlist" else "ks", T[1], [_elem(["spec", T[1]], 0), _elem(["spec", T[1]], 1)]]
        elif k == "spec":
            kw[name] = _elem(T, 0)
        else:
            kw[name] = grammar.gen_value(grammar.ListSource([1, 2, 3]), T, True)
    return kw


def _elem(E, i):
    if E[0] == "spec":
        if E[1] == "N":
            return ["spec", "N", {"k": "ab"[i], "v": i}]
        if E[1] == "V":
            return ["spec", "V", {"w": i}]
        return ["spec", "U", {"a": i, "b": "b"}]
    return {"int": [1, 2], "str": ["s", "t"], "float": [0.5, 1.5]}[E[0]][i]


def expected_virtual(world, cname):
    """init-enabled attributes of class cname (descriptor), and whether it has an overflow attribute"""
    names = [n for n, a in world.attrs(cname).items() if a.get("init") is not False]
    overflow = (world.class_desc(cname).get("opts") or {}).get("init_overflow_attr")
    return names, overflow


def methods_of(world):
    """(method name, kind, attr, nested class or None)"""
    out = [("__init__", "init", None, world.desc["instance_class"])]
    for t in ("update", "transform"):
        out.append((t, f"top_{t}", None, world.desc["instance_class"]))
    out.append(("reset", "top_reset", None, None))
    for name, a in world.attrs().items():
        T = a["type"]
        nested = T[1] if T[0] == "spec" else None
        for v in ("with", "update", "transform"):
            out.append((f"{v}_{name}", f"scalar_{v}", name, nested))
        out.append((f"reset_{name}", "scalar_reset", name, None))
        if is_collection(T):
            E = elem_type(T)
            en = E[1] if E[0] == "spec" else None
            s = SINGULAR[name]
            for v in ("with", "update", "transform"):
                out.append((f"{v}_{s}", f"elem_{v}", name, en))
            out.append((f"without_{s}", "elem_without", name, None))
    return out


def base_call(world, kind, attr):
    """A call (args, kwargs) of the given method that succeeds on the populated receiver."""
    if kind in ("init", "top_update", "top_transform", "top_reset", "scalar_reset"):
        return [], {}
    T = world.attrs()[attr]["type"]
    if kind == "scalar_with":
        return [populated_kwargs(world)[attr]], {}
    if kind == "scalar_update":
        return ([] if T[0] == "spec" else [populated_kwargs(world)[attr]]), {}
    if kind == "scalar_transform":
        return ([] if T[0] == "spec" else [["$fn", "identity", 0]]), {}
    E = elem_type(T)
    fam = family(T)
    new = _fresh(E)
    if kind == "elem_with":
        if fam == "map":
            return ["c", new], {}
        return [new], {}
    target = "a" if fam == "map" else (0 if fam == "seq" else ["$item", attr, 0])
    if kind == "elem_update":
        return ([target] if E[0] == "spec" else [target, new]), ({"_by_index": True} if fam == "seq" else {})
    if kind == "elem_transform":
        return ([target] if E[0] == "spec" else [target, ["$fn", "identity", 0]]), ({"_by_index": True} if fam == "seq" else {})
    return [target], ({"_by_index": True} if fam == "seq" else {})


def _fresh(E):
    if E[0] == "spec":
        return {"N": ["spec", "N", {"k": "zz", "v": 9}], "V": ["spec", "V", {"w": 9}], "U": ["spec", "U", {"a": 9}]}[E[1]]
    return {"int": 9, "str": "zz", "float": 9.5}[E[0]]


def run_world(ctx, wd):
    world = grammar.build_world(wd)
    cls = world.cls
    ctor_kw = populated_kwargs(world)
    if any("init" in c["opts"] for c in wd["classes"]):
        # (with an init=False class in the ancestry the constructor in force may belong to a grandparent: only what it advertises)
        try:
            cls.__spec_class__  # (a lazily bootstrapped class has no constructor of its own before this)
            adv = inspect.signature(cls.__init__).parameters
        except (TypeError, ValueError):
            adv = {}
        if not any(p.kind is p.VAR_KEYWORD for p in adv.values()) or cls.__init__ is object.__init__:
            ctor_kw = {k: v for k, v in ctor_kw.items() if k in adv}

    def receiver():
        return ops.construct(world, {"t": "new", "k": ctor_kw})

    try:
        receiver()
    except ops.CLEAN as e:
        # every keyword is an init-enabled attribute of the class (advertised by the constructor) with a conforming value
        ctx.fail(f"__init__|init|advertised_keywords_refused:{type(e).__name__}", {"world": wd, "method": "__init__", "test": ["ctor", ctor_kw]},
                 f"{cls.__name__}(**{ctor_kw}) matches the advertised signature {inspect.signature(cls.__init__)} but raised {e!r}")
        return
    for mname, kind, attr, nested in methods_of(world):
        fn = getattr(cls, mname, None)
        if fn is None:
            ctx.fail(f"missing_method|{kind}", {"world": wd, "method": mname}, f"{mname} does not exist")
            return
        try:
            sig = inspect.signature(fn)
        except (TypeError, ValueError) as e:
            ctx.fail(f"no_signature|{kind}", {"world": wd, "method": mname}, f"inspect.signature({mname}) raised {e!r}")
            return
        params = [p for p in sig.parameters.values() if p.name != "self"]
        if not check_method(ctx, world, wd, mname, kind, attr, nested, params, receiver):
            return


def check_method(ctx, world, wd, mname, kind, attr, nested, params, receiver):
    case0 = {"world": wd, "method": mname}
    virtual = [p for p in params if p.kind is inspect.Parameter.KEYWORD_ONLY and not p.name.startswith("_")]
    var_kw = [p for p in params if p.kind is inspect.Parameter.VAR_KEYWORD]
    # (5) nested-attribute keywords == init-enabled attributes of the nested class
    if nested is not None:
        want, overflow = expected_virtual(world, nested)
        if kind == "init" and world.class_desc(nested).get("opts", {}).get("key"):
            want = [n for n in want if n != world.class_desc(nested)["opts"]["key"]]
        got = [p.name for p in virtual]
        if sorted(got) != sorted(want) or bool(var_kw) != bool(overflow):
            ctx.fail(f"virtual_keywords|{kind}", dict(case0, test="virtual_set"), f"{mname} advertises nested keywords {got} (+**{[p.name for p in var_kw]}); the nested class {nested} has init-enabled attributes {want} (overflow={overflow})")
            return False
    elif virtual:
        ctx.fail(f"virtual_keywords|{kind}", dict(case0, test="virtual_set"), f"{mname} advertises nested keywords {[p.name for p in virtual]} but there is no nested spec class")
        return False
    args, kwargs = base_call(world, kind, attr)

    def call(a, k, inplace_receiver=None):
        r = inplace_receiver if inplace_receiver is not None else receiver()
        if kind == "init":
            kw = dict(populated_kwargs(world))
            kw.update(k)
            return r, ops.execute(world, None, {"t": "new", "k": kw})
        return r, ops.execute(world, r, {"t": "call", "m": mname, "a": a, "k": k})

    r0, (o0, v0) = call(args, kwargs)
    if o0 != "ok":
        ctx.count(f"no_valid_base_call:{kind}")
        ctx.case(dict(case0, test="base"), False)
        return True
    nontrivial_method = bool(virtual)
    # positional parameters passed by keyword
    pos = [p for p in params if p.kind is inspect.Parameter.POSITIONAL_OR_KEYWORD]
    if args and len(args) <= len(pos) and kind != "init":
        k2 = dict(kwargs, **{p.name: a for p, a in zip(pos, args)})
        r1, (o1, v1) = call([], k2)
        test = dict(case0, test="positional_by_keyword")
        if o1 != "ok":
            ctx.fail(f"positional_by_keyword|{kind}|{'binding' if binding_error(mname, v1) else type(v1).__name__}", test, f"{mname}(**{k2}) raised {v1!r} while the positional call succeeds")
            return False
        if not same_state(v0, v1):
            ctx.fail(f"positional_by_keyword|{kind}|result_differs", test, f"{mname} gives a different result when positional parameters are passed by keyword")
            return False
        ctx.case(test, nontrivial_method)
    # (3a) constructor: "defaults are as shown" - omitting an attribute keyword builds what passing its advertised default builds
    # (only where the constructor was generated for the instance class itself: a plain subclass inherits its parent's function,
    # whose one signature cannot show the subclass's re-defaults)
    if kind == "init" and world.class_desc(world.desc["instance_class"])["kind"] == "spec":
        from spec_classes.types import MISSING as _M

        for p in virtual:
            dv = p.default
            if dv is inspect.Parameter.empty or dv is _M or not isinstance(dv, (bool, int, str, float, type(None))):
                continue
            base = {k: v for k, v in populated_kwargs(world).items() if k != p.name}
            oa, va = ops.execute(world, None, {"t": "new", "k": base})
            ob, vb = ops.execute(world, None, {"t": "new", "k": dict(base, **{p.name: dv})})
            test = dict(case0, test=f"init_default:{p.name}")
            if oa != "ok" or ob != "ok":
                ctx.count("init_default:not_constructible")
                continue
            if not same_state(va, vb):
                ctx.fail(f"default_differs|init|{'inherited' if p.name not in [a['name'] for a in world.class_desc(world.desc['instance_class'])['attrs']] else 'own'}", test,
                         f"{mname} advertises {p.name}={dv!r}; omitting the keyword builds {getattr(va, p.name, '<unset>')!r}, passing {dv!r} builds {getattr(vb, p.name, '<unset>')!r}")
                return False
            ctx.case(test, True)
    # (3) omitted == advertised default, for non-virtual parameters with defaults
    for p in params:
        if p.default is inspect.Parameter.empty or p in virtual or p.kind is inspect.Parameter.VAR_KEYWORD or p.name in kwargs:
            continue
        if p.kind is inspect.Parameter.POSITIONAL_OR_KEYWORD and pos.index(p) < len(args):
            continue
        test = dict(case0, test=f"default:{p.name}")
        from spec_classes.types import MISSING

        dv = p.default
        dk = dict(kwargs)
        dk[p.name] = ["$missing"] if dv is MISSING else dv
        if not isinstance(dk[p.name], (bool, int, str, type(None), list)):
            continue
        r1, (o1, v1) = call(args, dk)
        if o1 != "ok" or not (same_state(v0, v1) if hasattr(v0, "__spec_class__") else v0 == v1):
            ctx.fail(f"default_differs|{kind}|{p.name}", test, f"{mname}: passing the advertised default {p.name}={dv!r} -> {o1} {v1!r}; omitting it -> {v0!r}")
            return False
        ctx.case(test, nontrivial_method or p.kind is inspect.Parameter.KEYWORD_ONLY)
    # (2) behavioural reach
    names = {p.name for p in params}
    if "_inplace" in names and kind != "init":
        r1, (o1, v1) = call(args, dict(kwargs, _inplace=True))
        test = dict(case0, test="reach:_inplace")
        if o1 != "ok" or v1 is not r1:
            ctx.fail(f"reach|_inplace|{kind}", test, f"{mname}(_inplace=True) -> {o1}; returned the receiver: {v1 is r1}")
            return False
        if v0 is r0 and kind not in ("top_update", "top_transform", "scalar_update", "scalar_transform", "elem_update", "elem_transform", "top_reset", "scalar_reset"):
            ctx.fail(f"reach|_inplace_default|{kind}", test, f"{mname}() without _inplace returned the receiver itself")
            return False
        ctx.case(test, True)
    if "_if" in names and kind != "init":
        r1 = receiver()
        snap = Snapshot(r1)
        _, (o1, v1) = call(args, dict(kwargs, _if=False, _inplace=True), inplace_receiver=r1)
        test = dict(case0, test="reach:_if")
        if o1 != "ok" or v1 is not r1 or snap.identity_form() != Snapshot(r1).identity_form():
            ctx.fail(f"reach|_if|{kind}", test, f"{mname}(_if=False, _inplace=True) -> {o1}; receiver returned: {v1 is r1}; receiver unchanged: {snap.identity_form() == Snapshot(r1).identity_form()}")
            return False
        ctx.case(test, True)
    if kind == "scalar_with" and world.attrs()[attr]["type"] == ["int"] and not world.prepare_kind(attr):
        # "reaches the underlying behaviour with the value given": a value that merely compares equal to the one held (True
        # where 1 is held) is still the value given
        test = dict(case0, test="reach:equal_but_other_value")
        r1 = receiver()
        o1, v1 = ops.execute(world, r1, {"t": "call", "m": mname, "a": [1], "k": {}})
        if o1 == "ok":
            for inplace in (False, True):
                o2, v2 = ops.execute(world, v1, {"t": "call", "m": mname, "a": [True], "k": {"_inplace": inplace}})
                got = getattr(v2, attr, "<unset>") if o2 == "ok" else v2
                if o2 != "ok" or got is not True:
                    ctx.fail(f"reach|value_given|{kind}|{'inplace' if inplace else 'copy'}", test, f"{mname}(True{', _inplace=True' if inplace else ''}) on an instance holding 1 -> {o2}, stored {got!r}")
                    return False
            ctx.case(test, True)
    if kind == "elem_with" and "_index" in names:
        new = args[-1]
        r1, (o1, v1) = call(args, dict(kwargs, _index=0, _insert=True))
        test = dict(case0, test="reach:_index_insert")
        if o1 != "ok":
            ctx.fail(f"reach|_index|{kind}|{'binding' if binding_error(mname, v1) else type(v1).__name__}", test, f"{mname}(item, _index=0, _insert=True) raised {v1!r}")
            return False
        coll = list(getattr(v1, attr))
        want = world.realize(new)
        how = world.prepare_kind(attr, item=True)
        if how and not isinstance(new, list):
            want = grammar.apply_preparer(how, want)  # (the element preparer in force for the instance class)
        if len(coll) != 3 or not _eq(coll[0], want):
            ctx.fail(f"reach|_index|{kind}|position", test, f"{mname}(item, _index=0, _insert=True): collection is {coll!r}")
            return False
        r2, (o2, v2) = call(args, dict(kwargs, _index=1))
        coll = list(getattr(v2, attr)) if o2 == "ok" else None
        if o2 != "ok" or len(coll) != 2 or not _eq(coll[1], want):
            ctx.fail(f"reach|_index|{kind}|replace", test, f"{mname}(item, _index=1): {o2} {coll!r}")
            return False
        ctx.case(test, True)
    # virtual keywords: single, reaching the nested object
    for p in virtual:
        T = NESTED_ATTRS.get(nested, {}).get(p.name) or (world.attrs(nested)[p.name]["type"] if nested in world.all_attrs and p.name in world.attrs(nested) else None)
        if T is None:
            continue
        test = dict(case0, test=f"virtual:{p.name}")
        if kind in ("init", "top_update", "top_transform") and T[0] not in ("int", "str"):
            continue  # container / nested values are normalised on assignment: C05/C09 check those values
        for v in _values(T):
            if kind.endswith("transform"):
                arg = ["$fn", "const", world.realize(v) if not isinstance(v, list) else None]
                if isinstance(v, list):
                    continue
            else:
                arg = v
            a2 = list(args)
            if kind in ("scalar_with",) and nested:
                a2 = []  # build from keywords
            if kind == "elem_with" and nested:
                a2 = (["c"] if family(world.attrs()[attr]["type"]) == "map" else [])
            k2 = dict(kwargs, **{p.name: arg})
            if nested == "N" and p.name != "k" and kind in ("scalar_with", "elem_with"):
                k2.setdefault("k", "kk")
            r1, (o1, v1) = call(a2, k2)
            if o1 != "ok":
                if binding_error(mname, v1):
                    ctx.fail(f"virtual_rejected|{kind}", test, f"{mname}(**{k2}) raised {v1!r} although {p.name} is advertised")
                    return False
                ctx.count(f"virtual_call_failed:{kind}:{type(v1).__name__}")
                continue
            want = world.realize(v)
            target = _locate(world, kind, attr, v1, k2, (p.name, _prepared(world, kind, p.name, want)))
            got = getattr(target, p.name, "<missing>") if target is not None else "<no target>"
            if target is None or not _eq(got, _prepared(world, kind, p.name, want)):
                ctx.fail(f"virtual_not_reaching|{kind}", test, f"{mname}(..., {p.name}={want!r}): the nested object has {p.name}={got!r}")
                return False
            # the same keyword next to a positional value given as a mapping of constructor arguments (dict-to-spec casting):
            # the keyword completes the mapping (it may even be the one required argument, e.g. the key)
            other = {"U": {"a": ("b", "dv"), "b": ("a", 41)}, "N": {"k": ("v", 41), "v": ("k", "dk2"), "note": ("k", "dk3")}}.get(nested, {}).get(p.name)
            if other and kind in ("scalar_with", "scalar_update", "elem_with") and not isinstance(arg, list):
                a3 = (["c"] if kind == "elem_with" and family(world.attrs()[attr]["type"]) == "map" else []) + [{other[0]: other[1]}]
                k3 = dict(kwargs, **{p.name: arg})
                k3.pop(other[0], None)
                r3, (o3, v3) = call(a3, k3)
                t3 = dict(case0, test=f"virtual_with_mapping:{p.name}")
                if o3 != "ok":
                    ctx.fail(f"virtual_with_mapping_rejected|{kind}|{type(v3).__name__}", t3, f"{mname}({a3}, **{k3}) raised {v3!r}; the same keyword without the mapping is accepted")
                    return False
                # (located through the mapping's distinctive value: the keyword's value may equal an existing element's)
                both = [x for x in (list(getattr(v3, attr).values()) if isinstance(getattr(v3, attr, None), dict) else list(getattr(v3, attr, None) or []))
                        if _eq(getattr(x, p.name, "<missing>"), _prepared(world, kind, p.name, want)) and _eq(getattr(x, other[0], "<missing>"), _prepared(world, kind, other[0], other[1]))] if kind == "elem_with" else []
                tgt = both[0] if both else _locate(world, kind, attr, v3, dict(k3, **{other[0]: other[1]}), (other[0], _prepared(world, kind, other[0], other[1])))
                g1 = getattr(tgt, p.name, "<missing>") if tgt is not None else "<no target>"
                g2 = getattr(tgt, other[0], "<missing>") if tgt is not None else "<no target>"
                if tgt is None or not _eq(g1, _prepared(world, kind, p.name, want)) or not _eq(g2, _prepared(world, kind, other[0], other[1])):
                    ctx.fail(f"virtual_with_mapping_not_reaching|{kind}", t3, f"{mname}({a3}, {p.name}={want!r}): the nested object has {p.name}={g1!r}, {other[0]}={g2!r}")
                    return False
                ctx.count("virtual_with_mapping")
        ctx.case(test, True)
    # overflow keywords
    if var_kw and kind in ("init", "scalar_with", "elem_with"):
        a2 = [] if kind != "elem_with" else (["c"] if family(world.attrs()[attr]["type"]) == "map" else [])
        k2 = dict(kwargs, zz9=1)
        r1, (o1, v1) = call(a2, k2)
        test = dict(case0, test="overflow")
        if o1 != "ok":
            ctx.fail(f"overflow_rejected|{kind}", test, f"{mname}(zz9=1) raised {v1!r} although **{var_kw[0].name} is advertised")
            return False
        target = _locate(world, kind, attr, v1, k2)
        oname = var_kw[0].name
        if target is None or getattr(target, oname, None) != {"zz9": 1}:
            ctx.fail(f"overflow_not_reaching|{kind}", test, f"{mname}(zz9=1): {oname} is {getattr(target, oname, '<missing>')!r}")
            return False
        # twice with different names (a stale cache of accepted names would drop the second)
        r2, (o2, v2) = call(a2, dict(kwargs, yy8=2))
        t2 = _locate(world, kind, attr, v2, {}) if o2 == "ok" else None
        if o2 != "ok" or t2 is None or getattr(t2, oname, None) != {"yy8": 2}:
            ctx.fail(f"overflow_not_reaching|{kind}|second_call", test, f"{mname}(yy8=2) after {mname}(zz9=1): {o2}, {oname}={getattr(t2, oname, '<missing>') if t2 is not None else None!r}")
            return False
        ctx.case(test, True)
    # pairs of advertised keywords: binding only
    kws = [p for p in params if p.kind is inspect.Parameter.KEYWORD_ONLY][:7]
    for p, q in itertools.combinations(kws, 2):
        k2 = dict(kwargs)
        for x in (p, q):
            k2[x.name] = _pair_value(world, nested, kind, x)
        a2 = list(args)
        r1, (o1, v1) = call(a2, k2)
        if o1 == "raise" and binding_error(mname, v1):
            ctx.fail(f"pair_rejected|{kind}", dict(case0, test=f"pair:{p.name},{q.name}"), f"{mname}(**{k2}) raised {v1!r}")
            return False
        if o1 == "raise" and "_inplace" in (p.name, q.name) and k2.get("_inplace") is True and kind != "init" \
                and not world.class_desc(world.desc["instance_class"]).get("opts", {}).get("frozen"):
            # a nested keyword together with _inplace=True: what the copy form accepts, the in-place form of a non-frozen
            # receiver accepts too (the nested value is edited on a private copy either way)
            r0, (o0, v0) = call(list(args), {k: v for k, v in k2.items() if k != "_inplace"})
            if o0 == "ok":
                ctx.fail(f"pair_refused|{kind}|{type(v1).__name__}", dict(case0, test=f"pair:{p.name},{q.name}"), f"{mname}(**{k2}) raised {v1!r}; without _inplace the same call succeeds")
                return False
        ctx.count("pairs")
    # (4) unadvertised keywords
    if not var_kw:
        for bad in OUTSIDE:
            if bad in names:
                continue
            for extra in ({}, {"_inplace": True}, {"_if": False}, {"_if": True}):
                if extra and (list(extra)[0] not in names or kind == "init"):
                    continue
                r1 = receiver()
                snap = Snapshot(r1)
                _, (o1, v1) = call(args, dict(kwargs, **{bad: 1}, **extra), inplace_receiver=r1)
                test = dict(case0, test=f"outside:{bad}{':' + ','.join(f'{k}={v}' for k, v in extra.items()) if extra else ''}")
                if o1 != "raise" or not isinstance(v1, TypeError):
                    ctx.fail(f"outside_accepted|{kind}|{_outside_kind(bad)}", test, f"{mname}(..., {bad}=1) -> {o1} {v1!r}; {bad} is not in the signature")
                    return False
                if snap.identity_form() != Snapshot(r1).identity_form():
                    ctx.fail(f"outside_changed_receiver|{kind}", test, f"{mname}(..., {bad}=1{', _inplace=True' if extra else ''}) raised but changed the receiver")
                    return False
                ctx.case(test, nontrivial_method)
    return True


def _outside_kind(bad):
    return {"h": "noinit_attr", "opts": "overflow_name", "_private": "private"}.get(bad, "unknown")


def _values(T):
    return GOOD.get(T[0], [])


def _pair_value(world, nested, kind, p):
    if p.name in ("_inplace", "_if", "_insert", "_by_index"):
        return True if p.name != "_insert" else False
    if p.name == "_index":
        return 0
    T = NESTED_ATTRS.get(nested, {}).get(p.name) or (world.attrs(nested)[p.name]["type"] if nested in world.all_attrs and p.name in world.attrs(nested) else ["int"])
    v = (_values(T) or [4])[0]
    if kind.endswith("transform"):
        return ["$fn", "const", v if not isinstance(v, list) else 0]
    return v


def _prepared(world, kind, name, v):
    if kind in ("init", "top_update", "top_transform"):
        how = world.prepare_kind(name)
        if how and not isinstance(v, list):
            return grammar.apply_preparer(how, v)
    return v


def _eq(a, b):
    try:
        return a == b
    except Exception:
        return False


def _locate(world, kind, attr, result, kw, hint=None):
    if kind in ("init", "top_update", "top_transform"):
        return result
    if kind.startswith("scalar"):
        return getattr(result, attr, None)
    coll = getattr(result, attr, None)
    if coll is None:
        return None
    if hint is not None:
        # element helpers: the value has reached the behaviour iff some element of the collection now carries it
        items = list(coll.values()) if isinstance(coll, dict) else list(coll)
        hits = [x for x in items if _eq(getattr(x, hint[0], "<missing>"), hint[1])]
        if hits:
            return hits[0]
    fam = family(world.attrs()[attr]["type"])
    if kind == "elem_with":
        if fam == "map":
            return coll.get("c")
        items = list(coll)
        if "k" in kw and not ops.is_special(kw["k"]):
            hits = [x for x in items if getattr(x, "k", None) == kw["k"]]
            return hits[0] if hits else None
        return items[-1] if fam == "seq" else next((x for x in items if getattr(x, "w", getattr(x, "a", None)) not in (0, 1) or getattr(x, "opts", None)), items[-1])
    if fam == "map":
        return coll.get("a")
    if fam == "seq":
        return list(coll)[0]
    items = sorted(coll, key=repr)
    return items[0]


@st.composite
def world_strategy(draw):
    src = grammar.HypSource(draw)
    wd = grammar.gen_world(src, PROFILE)
    if src.chance(1, 5):
        # a spec-class ancestor declared with init=False ("completely remove the generated __init__"): the instance class
        # still advertises - and must accept - the attributes it inherits from it
        by_name = {c["name"]: c for c in wd["classes"]}
        anc, todo = [], list(by_name[wd["instance_class"]]["bases"])
        while todo:
            c = by_name[todo.pop()]
            todo.extend(c["bases"])
            if c["kind"] == "spec":
                anc.append(c)
        if anc and by_name[wd["instance_class"]]["kind"] == "spec":  # (a plain instance class would merely inherit an older constructor)
            src.pick(anc)["opts"]["init"] = False
    by_name = {c["name"]: c for c in wd["classes"]}
    if "P" in by_name and "M" in by_name and src.chance(3, 4):
        # M re-declares an attribute of its spec parent P with another default: M's methods advertise M's default
        cands = [a for a in by_name["P"]["attrs"] if a["type"][0] in ("int", "str") and a["default"][0] in ("lit", "attr_default")
                 and a["name"] not in [x["name"] for x in by_name["M"]["attrs"]] and a["name"] not in (by_name["M"].get("redefaults") or {})]
        if cands:
            a = src.pick(cands)
            new = {"int": [41, 42, 0], "str": ["rd", "", "zz"]}[a["type"][0]]
            by_name["M"]["attrs"].append({"name": a["name"], "type": a["type"], "default": ["lit", src.pick([v for v in new if v != a["default"][1]])]})
    if wd["instance_class"] == "Q" and src.chance(1, 2):
        # a decorated class below the undecorated one (which may re-default inherited attributes): its constructor is generated
        # for it, and advertises the defaults in force for it
        wd["classes"].append({"name": "R2", "kind": "spec", "bases": ["Q"], "opts": {}, "attrs": []})
        wd["instance_class"] = "R2"
    return wd


BOUNDS = {"quick": dict(examples=25, units=16), "thorough": dict(examples=300, units=16)}


def units(tier, seed):
    return [["hyp", i] for i in range(BOUNDS[tier]["units"])]


def run_unit(ctx, unit):
    b = BOUNDS[ctx.tier]
    run_given(ctx, lambda wd: run_world(ctx, wd), {"wd": world_strategy()}, b["examples"], ctx.seed * 1000 + unit[1])


def replay(ctx, case):
    # a replay re-checks the whole method of the stored world (the failing test is among them)
    if (case.get("test") or [None])[0] == "ctor":
        return run_world(ctx, case["world"])
    world = grammar.build_world(case["world"])
    cls = world.cls
    cls.__spec_class__
    ctor_kw = populated_kwargs(world)
    for mname, kind, attr, nested in methods_of(world):
        if mname != case["method"]:
            continue
        sig = inspect.signature(getattr(cls, mname))
        params = [p for p in sig.parameters.values() if p.name != "self"]
        check_method(ctx, world, case["world"], mname, kind, attr, nested, params, lambda: ops.construct(world, {"t": "new", "k": ctor_kw}))
