"""
Deep identity + structure snapshots of object graphs.

snap(obj) walks raw instance __dict__s (never triggers descriptors), lists,
dicts (in order), sets, tuples, KeyedList / KeyedSet, and records for every
node (kind, id, content). Strong references are kept, so ids are not recycled
while a snapshot is alive.

  unchanged(a, b)  same identity graph and equal content
  same_state(a, b) equal content, identity ignored
  mutable_ids(obj) ids of reachable mutable objects (containers, instances)
"""

from __future__ import annotations

import types

LEAF_TYPES = (int, float, str, bytes, bool, type(None), type, types.FunctionType, types.BuiltinFunctionType, types.ModuleType, complex, range)


def _is_keyed(obj):
    return hasattr(obj, "_dict") and hasattr(obj, "_key") and type(obj).__module__.startswith("spec_classes")


class Snapshot:
    def __init__(self, root, skip=None):
        self.skip = skip  # skip(owner, key) -> True prunes the edge owner.__dict__[key]
        self.keep = []  # strong refs
        self.nodes = {}  # id -> (kind, content)
        self.root = self._walk(root)

    def _walk(self, obj):
        if isinstance(obj, LEAF_TYPES) or (isinstance(obj, type)):
            return ("leaf", type(obj).__name__, repr(obj) if not isinstance(obj, (types.FunctionType, types.ModuleType, type)) else id(obj))
        oid = id(obj)
        ref = ("ref", oid)
        if oid in self.nodes:
            return ref
        self.keep.append(obj)
        self.nodes[oid] = None  # placeholder for cycles
        if isinstance(obj, types.MethodType):
            self.nodes[oid] = ("method", (id(obj.__func__), self._walk(obj.__self__)))
        elif _is_keyed(obj):
            lst = getattr(obj, "_list", None)
            content = {
                "list": [self._walk(x) for x in lst] if lst is not None else None,
                # neither the key index of a KeyedList nor a KeyedSet has an observable order
                "dict": sorted(((repr(k), self._walk(v)) for k, v in obj._dict.items()), key=lambda kv: kv[0]),
            }
            self.nodes[oid] = (type(obj).__name__, content)
        elif isinstance(obj, list):
            self.nodes[oid] = ("list", [self._walk(x) for x in obj])
        elif isinstance(obj, tuple):
            self.nodes[oid] = ("tuple", [self._walk(x) for x in obj])
        elif isinstance(obj, dict):
            self.nodes[oid] = ("dict", [(self._walk(k), self._walk(v)) for k, v in obj.items()])
        elif isinstance(obj, (set, frozenset)):
            self.nodes[oid] = ("set", sorted((self._walk(x) for x in obj), key=repr))
        elif hasattr(obj, "__dict__"):
            d = object.__getattribute__(obj, "__dict__")
            self.nodes[oid] = ("inst:" + type(obj).__name__, [
                (k, ("pruned", id(v)) if self.skip is not None and self.skip(obj, k) else self._walk(v)) for k, v in d.items()])
        else:
            self.nodes[oid] = ("opaque", repr(obj))
        return ref

    # -- comparisons -----------------------------------------------------
    def identity_form(self):
        return (self.root, self.nodes)

    def structure(self, ref=None, seen=None):
        """Content with identities erased (cycles cut by a marker)."""
        ref = self.root if ref is None else ref
        seen = seen or ()
        if ref[0] == "leaf":
            return ref
        oid = ref[1]
        if oid in seen:
            return ("cycle", seen.index(oid))
        kind, content = self.nodes[oid]
        seen = seen + (oid,)

        def s(x):
            if isinstance(x, tuple) and x and x[0] in ("ref", "leaf"):
                return self.structure(x, seen)
            if isinstance(x, tuple):
                return tuple(s(y) for y in x)
            if isinstance(x, list):
                return [s(y) for y in x]
            if isinstance(x, dict):
                return {k: s(v) for k, v in x.items()}
            return x

        return (kind, s(content))


def snap(obj):
    return Snapshot(obj)


def unchanged(before: Snapshot, obj) -> bool:
    after = Snapshot(obj, before.skip)
    return before.identity_form() == after.identity_form()


def diff(before: Snapshot, obj) -> str:
    after = Snapshot(obj, before.skip)
    if before.root != after.root:
        return f"root {before.root} -> {after.root}"
    for oid, node in before.nodes.items():
        other = after.nodes.get(oid)
        if other != node:
            return f"node {node!r} -> {other!r}"[:600]
    extra = set(after.nodes) - set(before.nodes)
    if extra:
        return f"new nodes {[after.nodes[e] for e in extra]!r}"[:600]
    return ""


def same_state(a, b) -> bool:
    return Snapshot(a).structure() == Snapshot(b).structure()


def mutable_ids(obj, skip=lambda owner, key: False):
    """ids -> object for every reachable mutable node. `skip(owner, key)` prunes
    the edge `owner.__dict__[key]` (used for do_not_copy attributes)."""
    out = {}

    def walk(o):
        if isinstance(o, LEAF_TYPES) or isinstance(o, type):
            return
        if id(o) in out:
            return
        if isinstance(o, types.MethodType):
            return
        if isinstance(o, tuple) or isinstance(o, frozenset):
            out[id(o)] = None  # visited marker (immutable itself)
            for x in o:
                walk(x)
            return
        out[id(o)] = o
        if _is_keyed(o):
            for x in o._dict.values():
                walk(x)
        elif isinstance(o, (list, set)):
            for x in o:
                walk(x)
        elif isinstance(o, dict):
            for k, v in o.items():
                walk(k)
                walk(v)
        elif hasattr(o, "__dict__"):
            for k, v in object.__getattribute__(o, "__dict__").items():
                if skip(o, k):
                    continue
                walk(v)

    walk(obj)
    return {i: o for i, o in out.items() if o is not None}
