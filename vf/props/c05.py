"""
C05 - scalar and top-level helpers compute exactly the documented new state.

Oracles
 (1) abstract state of the result == the state computed by the documentation model (vf/model.py);
 (2) the same probe run copy-on-write on replica A and with _inplace=True on replica B gives the same state;
     B's call returns B itself, A is unchanged;
 (3) obj.a = v  ==  obj.with_a(v, _inplace=True);  del obj.a  ==  obj.reset_a(_inplace=True);
 (4) update(a=.., b=..) == folding with_a, with_b;  transform(a=f, ..) == folding transform_a;
     with_n(k=v) == with_n(Nested(k=v)) for nested spec attributes;
 (5) no-op forms: _if=False returns the receiver itself; UNCHANGED as new value, MISSING as a keyword value and a
     transform returning MISSING leave the state equal.
"""
from __future__ import annotations

import copy

from hypothesis import strategies as st

from vf import grammar, model, ops
from vf.probe import reach
from vf.props.common import op_route
from vf.runner import run_given
from vf.snapshot import Snapshot

ID = "C05"
LEVEL = "exploration"
RULE = (
    "cases = (generated class world with model-known preparers; history of <= 6 ops reaching a state; probe = a scalar or top-level helper in one of its "
    "documented call forms with conforming values and pure transforms (incl. transforms returning MISSING, UNCHANGED values, MISSING keywords), x _inplace x _if). "
    "Each probe is executed on replicas rebuilt by replaying the history: copy form, in-place form, assignment/deletion spelling, folded spelling. "
    "Non-trivial = the probe changes the abstract state, or is a no-op form on a non-default state; distinct = canonical JSON of (world, history, probe)."
)
ASSUMPTIONS = [
    "with_a() / with_a(MISSING) builds a fresh value of the declared type (documented pipeline step 4) - it is not a no-op",
    "identity of the result for state no-ops is only asserted for _if=False",
    "reset_a / del restore the default as a newly constructed instance holds it, i.e. prepared (so do the dependants that an invalidation resets); "
    "resetting an attribute without default that is already missing leaves it missing (no error)",
    "the model covers: with_/transform_/reset_ on every attribute kind with whole conforming values, update_/with_ with nested keywords on spec attributes, "
    "update/transform/reset as folds; other forms are checked through relations (2)-(5) only",
]
PROFILE = dict(grammar.PROFILES["data_plain"], flags=False, invalidation_cycles=True)
NOOP_FN = {"to_missing"}


def gen_probe(src, info):
    attrs = info.attrs()
    names = list(attrs)
    m = src.choice(12)
    k = {}
    if src.chance(1, 10):
        k["_if"] = src.chance(1, 2)
    if src.chance(1, 12):
        # _if=False must be a no-op even when evaluating the call would fail
        a = src.pick(names)
        T = attrs[a]["type"]
        if T[0] == "spec" and src.chance(1, 2):
            return {"t": "call", "m": f"update_{a}", "a": [], "k": {"_if": False, ("a" if T[1] == "U" else "v"): "not-an-int"}, "form": "if_false_failing"}
        return {"t": "call", "m": f"{src.pick(['transform', 'transform', 'with', 'update'])}_{a}", "a": [["$fn", "boom", 0]], "k": {"_if": False}, "form": "if_false_failing"}
    if m <= 3:
        a = src.pick(names)
        T = attrs[a]["type"]
        if src.chance(1, 8):
            verb = src.pick(["with", "with", "update"])  # update_<a>(UNCHANGED): "UNCHANGED make[s] the call a no-op returning the receiver"
            return {"t": "call", "m": f"{verb}_{a}", "a": [["$unchanged"] if verb == "update" else src.pick([["$unchanged"], ["$missing"]])], "k": k, "form": "noop_value"}
        if T[0] == "spec" and src.chance(1, 2):
            kw = _nested_kw(src, T[1])
            if src.chance(1, 6) and kw:
                kw[next(iter(kw))] = ["$missing"]
            return {"t": "call", "m": f"with_{a}", "a": [], "k": dict(k, **kw), "form": "with_nested_kw"}
        return {"t": "call", "m": f"with_{a}", "a": [grammar.gen_value(src, T, True)], "k": k, "form": "with_value"}
    if m <= 5:
        a = src.pick(names)
        T = attrs[a]["type"]
        if T[0] == "spec" and src.chance(1, 2):
            # whole-value transform AND attribute transform: the value is transformed first, then its attributes
            inner = "a" if T[1] == "U" else "v"
            fn2 = src.pick([["$fn", "inc", 1], ["$fn", "double", 0], ["$fn", "const", 3]])
            args = [src.pick([["$fn", "identity", 0], ["$fn", "with_first", 0], ["$fn", "with_first", 0]])] if src.chance(3, 4) else []
            return {"t": "call", "m": f"transform_{a}", "a": args, "k": dict(k, **{inner: fn2}), "form": "transform_nested"}
        fn = ops.gen_fn(src, T)
        while fn[1] in ("wrong", "existing", "with_first", "keyless"):
            fn = ops.gen_fn(src, T)
        return {"t": "call", "m": f"transform_{a}", "a": [fn], "k": k, "form": "transform"}
    if m == 6:
        specs = [n for n in names if attrs[n]["type"][0] == "spec"]
        if specs:
            a = src.pick(specs)
            if src.chance(1, 3):
                # the combined form: a replacement value AND keywords to merge into it
                kw = {n: v for n, v in _nested_kw(src, attrs[a]["type"][1]).items() if not ops.is_special(v)}
                if kw:
                    return {"t": "call", "m": f"update_{a}", "a": [grammar.gen_value(src, attrs[a]["type"], True)], "k": dict(k, **kw), "form": "update_value_kw"}
            return {"t": "call", "m": f"update_{a}", "a": [], "k": dict(k, **_nested_kw(src, attrs[a]["type"][1])), "form": "update_nested_kw"}
    if m <= 8:
        return {"t": "call", "m": f"reset_{src.pick(names)}", "a": [], "k": k, "form": "reset_attr"}
    if m == 9:
        return {"t": "call", "m": "reset", "a": [], "k": k, "form": "reset"}
    chosen = []
    pairs = [(i, d) for d, a in attrs.items() for i in (a.get("invalidated_by") or ()) if i in attrs and i != d]
    if pairs and src.chance(1, 3):
        # an invalidating attribute followed by one of its dependants: keywords are applied in order, so the dependant's
        # transform / new value starts from the default that the first keyword has just restored
        chosen = list(src.pick(pairs))
    for _ in range(1 + src.choice(3)):
        a = src.pick(names)
        if a not in chosen:
            chosen.append(a)
    if m == 10:
        kw = {a: grammar.gen_value(src, attrs[a]["type"], True) for a in chosen}
        if src.chance(1, 8):
            kw[chosen[0]] = ["$missing"]
        return {"t": "call", "m": "update", "a": [], "k": dict(k, **kw), "form": "update"}
    kw = {}
    for a in chosen:
        fn = ops.gen_fn(src, attrs[a]["type"])
        while fn[1] in ("wrong", "existing", "with_first", "keyless"):
            fn = ops.gen_fn(src, attrs[a]["type"])
        kw[a] = fn
    return {"t": "call", "m": "transform", "a": [], "k": dict(k, **kw), "form": "transform_top"}


def _nested_kw(src, cname):
    if cname == "U":
        kw = {}
        if src.chance(2, 3):
            kw["a"] = src.pick([0, 2, 5])
        if src.chance(1, 2) or not kw:
            kw["b"] = src.pick(["", "x"])
        return kw
    kw = {"k": src.pick(grammar.KEYS)} if src.chance(1, 2) else {}
    kw["v"] = src.pick([0, 1, 3])
    return kw


@st.composite
def case_strategy(draw):
    src = grammar.HypSource(draw)
    wd = grammar.gen_world(src, PROFILE)
    info = grammar.world_info(wd)
    hist = ops.gen_history(src, info, max_ops=6, inplace=True, bad_rate=(0, 1), allow=("scalar", "element", "top"))
    return {"world": wd, "ops": hist, "probe": gen_probe(src, info)}


def fn_result(fn, old):
    """Model of the pure transform pool on abstract values; returns (ok, value) - ok False when the model abstains."""
    name, param = fn[1], fn[2]
    try:
        if name == "to_missing":
            return False, None  # docs are silent on transforms returning MISSING (the code builds a fresh value): unconstrained
        if name == "const":
            return True, param
        if old is model.ABSENT:
            return False, None  # transforming a missing attribute: unconstrained
        if name == "identity":
            return True, old
        if name == "inc":
            return True, old + param
        if name == "double":
            return True, old * 2
        if name == "neg":
            return True, -old
        if name == "suffix":
            return True, old + param
        if name == "append_copy":
            return True, [old[0], old[1] + old[1][:1]]
        if name == "empty":
            return True, [old[0], {} if old[0] == "D" else []]
    except Exception:
        return False, None
    return False, None


def expected_states(world, cname, state, probe):
    """Acceptable abstract states after `probe`, or None when the model abstains / expects a clean rejection."""
    k = {n: v for n, v in probe["k"].items() if not n.startswith("_")}
    form = probe["form"]
    attrs = world.attrs(cname)
    if probe["k"].get("_if") is False:
        return [state]
    if form == "noop_value":
        if probe["a"][0][0] == "$unchanged":
            return [state]
        return None  # with_a(MISSING) builds a fresh value: relations only
    if form == "with_value":
        a = probe["m"][5:]
        return [model.set_attr(world, cname, state, a, model.mvalue(world, probe["a"][0]))]
    if form in ("with_nested_kw", "update_nested_kw"):
        a = probe["m"].split("_", 1)[1]
        T = attrs[a]["type"]
        kw = {n: model.mvalue(world, v) for n, v in k.items() if not ops.is_special(v)}
        old = state.get(a)
        if form == "with_nested_kw" or old is None or not (isinstance(old, list) and old[0] == "I"):
            if T[1] == "N" and "k" not in kw and world.declared_default("k", "N")[0] in ("none", "attr_none"):
                return None  # key is required: clean rejection expected, asserted through relation (2)
            new = model.model_new(world, T[1], kw)
        else:
            inner = dict(old[2])
            for n, v in kw.items():
                inner = model.set_attr(world, T[1], inner, n, v)
            new = ["I", old[1], inner]
        return [model.set_attr(world, cname, state, a, new)]
    if form == "update_value_kw":
        a = probe["m"].split("_", 1)[1]
        T = attrs[a]["type"]
        base = model.mvalue(world, probe["a"][0])
        if not (isinstance(base, list) and base and base[0] == "I"):
            return None
        inner = dict(base[2])
        for n, v in k.items():
            if not ops.is_special(v):
                inner = model.set_attr(world, T[1], inner, n, model.mvalue(world, v))
        return [model.set_attr(world, cname, state, a, ["I", base[1], inner])]
    if form == "transform":
        a = probe["m"].split("_", 1)[1]
        ok, v = fn_result(probe["a"][0], state.get(a, model.ABSENT))
        if not ok:
            return None
        if v is model.ABSENT:
            return [state]
        try:
            return [model.set_attr(world, cname, state, a, v)]
        except Exception:
            return None
    if form == "transform_nested":
        a = probe["m"].split("_", 1)[1]
        old = state.get(a, model.ABSENT)
        if old is model.ABSENT or not (isinstance(old, list) and old[0] == "I"):
            return None
        inner = dict(old[2])
        if probe["a"] and probe["a"][0][1] == "with_first":
            first = "a" if old[1] == "U" else "v"
            if not isinstance(inner.get(first), int) or isinstance(inner.get(first), bool):
                return None
            inner[first] = inner[first] + 1
        for n, fn in k.items():
            ok, v = fn_result(fn, inner.get(n, model.ABSENT))
            if not ok:
                return None
            inner = model.set_attr(world, old[1], inner, n, v)
        return [model.set_attr(world, cname, state, a, ["I", old[1], inner])]
    if form == "reset_attr":
        return model.reset_attr(world, cname, state, probe["m"][6:])
    if form == "reset":
        outs = [state]
        for a in attrs:
            outs = [s2 for s in outs for s2 in model.reset_attr(world, cname, s, a)][:16]
        return outs
    if form == "update":
        s = state
        for a, v in k.items():
            if ops.is_special(v):
                continue
            s = model.set_attr(world, cname, s, a, model.mvalue(world, v))
        return [s]
    if form == "transform_top":
        s = state
        for a, fn in k.items():
            ok, v = fn_result(fn, s.get(a, model.ABSENT))
            if not ok:
                return None
            if v is not model.ABSENT:
                try:
                    s = model.set_attr(world, cname, s, a, v)
                except Exception:
                    return None
        return [s]
    return None


def run_case(ctx, case):
    world = grammar.build_world(case["world"])
    hist, probe = case["ops"], case["probe"]
    cname = world.desc["instance_class"]
    route = probe["form"]
    A, _ = reach(world, hist)
    if A is None:
        ctx.case(case, False)
        return
    before = model.state_of(A)
    snapA = Snapshot(A)
    base = {"t": "call", "m": probe["m"], "a": probe["a"], "k": {n: v for n, v in probe["k"].items() if n != "_inplace"}}
    oa, ra = ops.execute(world, A, base)
    if snapA.identity_form() != Snapshot(A).identity_form():
        ctx.fail(f"{route}|copy_form_changed_receiver", case, f"{base} changed the receiver")
        return
    B, _ = reach(world, hist)
    ob, rb = ops.execute(world, B, dict(base, k=dict(base["k"], _inplace=True)))
    ctx.count(f"{route}:{oa}")
    if oa != ob or (oa == "raise" and type(ra).__name__ != type(rb).__name__):
        ctx.fail(f"{route}|copy_vs_inplace_outcome", case, f"copy form -> {oa} {ra!r}; in-place form -> {ob} {rb!r}")
        return
    if oa == "raise" and probe["form"] in ("reset_attr", "reset") and isinstance(ra, AttributeError):
        # "reset_<a> / reset / del restore defaults" (docs: "... or MISSING if there is no default"): there is nothing a reset can
        # object to - in particular not that the attribute holds nothing at the moment (a default that its own preparer rejects
        # is the class's problem: the constructor fails on it as well)
        ctx.fail(f"{route}|reset_raised:{type(ra).__name__}", case, f"{base} raised {ra!r}")
        return
    noop = probe["k"].get("_if") is False
    if noop and oa != "ok":
        ctx.fail(f"{route}|if_false_raised:{type(ra).__name__}", case, f"{base} has _if=False and must be a no-op, but raised {ra!r}")
        return
    if oa == "ok":
        if not hasattr(ra, "__spec_class__"):
            ctx.fail(f"{route}|result_type", case, f"{base} returned {ra!r}")
            return
        if rb is not B:
            ctx.fail(f"{route}|inplace_returns_other_object", case, f"in-place form returned {rb!r}, not the receiver")
            return
        if noop and ra is not A:
            ctx.fail(f"{route}|if_false_not_receiver", case, "_if=False did not return the receiver itself")
            return
        sa, sb = model.state_of(ra), model.state_of(B)
        if sa != sb:
            diffs = [n for n in set(sa) | set(sb) if sa.get(n, model.ABSENT) != sb.get(n, model.ABSENT)]
            ctx.fail(f"{route}|copy_vs_inplace_state", case, f"copy form and in-place form disagree on {diffs}: {[(sa.get(n), sb.get(n)) for n in diffs]}")
            return
        # (1) documentation model
        try:
            exp = expected_states(world, cname, before, probe)
        except Exception as e:  # the model only understands conforming inputs; abstain otherwise
            exp = None
            ctx.count(f"model_abstained:{type(e).__name__}")
        if exp is not None:
            ctx.count("model_checked")
            if sa not in exp:
                e0 = exp[0]
                diffs = [n for n in sorted(set(sa) | set(e0)) if sa.get(n, model.ABSENT) != e0.get(n, model.ABSENT)]
                kinds = ",".join(sorted({world.attrs(cname)[n]["type"][0] for n in diffs if n in world.attrs(cname)}))
                ctx.fail(f"{route}|model:{kinds}", case, f"{base}: state differs from the documented result in {diffs}: got {[sa.get(n, model.ABSENT) for n in diffs]}, expected {[e0.get(n, model.ABSENT) for n in diffs]}")
                return
        # (5) no-op forms
        only_missing_kw = probe["form"] == "update" and all(ops.is_special(v) and v[0] == "$missing" for n, v in probe["k"].items() if not n.startswith("_"))
        is_noop_form = noop or (probe["form"] == "noop_value" and probe["a"][0][0] == "$unchanged") or only_missing_kw
        if is_noop_form and sa != before:
            diffs = [n for n in set(sa) | set(before) if sa.get(n, model.ABSENT) != before.get(n, model.ABSENT)]
            ctx.fail(f"{route}|noop_changed_state", case, f"{base} is a documented no-op but changed {diffs}: {[(before.get(n), sa.get(n)) for n in diffs]}")
            return
    # (3) assignment / deletion spellings
    if probe["form"] == "with_value" and "_if" not in probe["k"]:
        C, _ = reach(world, hist)
        oc, rc = ops.execute(world, C, {"t": "set", "attr": probe["m"][5:], "v": probe["a"][0]})
        if oc != ob or (oc == "ok" and model.state_of(C) != model.state_of(B)):
            ctx.fail(f"{route}|assignment_differs", case, f"obj.{probe['m'][5:]} = v -> {oc} {model.state_of(C) if oc == 'ok' else rc!r}; with_(v, _inplace=True) -> {ob} {model.state_of(B) if ob == 'ok' else rb!r}")
            return
    if probe["form"] == "reset_attr" and "_if" not in probe["k"]:
        C, _ = reach(world, hist)
        oc, rc = ops.execute(world, C, {"t": "del", "attr": probe["m"][6:]})
        nothing_there = probe["m"][6:] not in before and model.model_default(world, cname, probe["m"][6:]) is model.ABSENT
        if nothing_there and oc == "raise" and isinstance(rc, AttributeError) and ob == "ok" and model.state_of(C) == model.state_of(B):
            pass  # `del` of a name that holds nothing is Python's AttributeError; the helper spelling is a no-op - same state either way
        elif oc != ob or (oc == "ok" and model.state_of(C) != model.state_of(B)):
            ctx.fail(f"{route}|del_differs", case, f"del obj.{probe['m'][6:]} -> {oc}; reset_(_inplace=True) -> {ob}")
            return
    # (4) folds
    if probe["form"] in ("update", "transform_top") and oa == "ok" and "_if" not in probe["k"]:
        D, _ = reach(world, hist)
        ok = True
        chosen = [n for n in probe["k"] if not n.startswith("_")]
        if probe["form"] == "transform_top" and any(set(world.attrs(cname)[n].get("invalidated_by") or ()) & set(chosen) for n in chosen):
            ok = False  # an earlier transform invalidates a later target: "transforming a missing attribute" again
        for a, v in probe["k"].items():
            if a.startswith("_") or (ops.is_special(v) and v[0] == "$missing"):
                continue
            if not ok or (probe["form"] == "transform_top" and (a not in before or v[1] == "to_missing")):
                ok = False  # transforming a missing attribute: the two spellings are not documented to agree
                break
            verb = "with" if probe["form"] == "update" else "transform"
            o, r = ops.execute(world, D, {"t": "call", "m": f"{verb}_{a}", "a": [v], "k": {"_inplace": True}})
            ok = ok and o == "ok"
        if ok and model.state_of(D) != model.state_of(B):
            ctx.fail(f"{route}|fold_differs", case, f"{base} differs from folding the per-attribute helpers")
            return
    if probe["form"] == "with_nested_kw" and oa == "ok":
        a = probe["m"][5:]
        T = world.attrs(cname)[a]["type"]
        kw = {n: v for n, v in probe["k"].items() if not n.startswith("_") and not ops.is_special(v)}
        if len(kw) == len([n for n in probe["k"] if not n.startswith("_")]) and "_if" not in probe["k"]:
            D, _ = reach(world, hist)
            o, r = ops.execute(world, D, {"t": "call", "m": f"with_{a}", "a": [["spec", T[1], kw]], "k": {"_inplace": True}})
            if o == "ok" and model.state_of(D) != model.state_of(B):
                ctx.fail(f"{route}|nested_kw_vs_instance", case, f"with_{a}(**{kw}) differs from with_{a}({T[1]}(**{kw}))")
                return
    changed = oa == "ok" and model.state_of(ra) != before
    default_state = model.state_of(A) == (model.model_new(world, cname, {})[2])
    ctx.case(case, changed or (oa == "ok" and not default_state))


BOUNDS = {"quick": dict(examples=800, units=16), "thorough": dict(examples=4000, units=16)}


# ---------------------------------------------------------------------------
# whole-value assignment of element-prepared containers: the stored state is {prepare(x) for x in v} (every element prepared
# exactly once), for preparers that map elements onto other elements of the same value (n+1, n-1, 2n): exhaustive small scope

SP_PREPARERS = {"inc": lambda n: n + 1, "dec": lambda n: n - 1, "double": lambda n: n * 2, "abs": abs}
SP_ROUTES = ["ctor", "assign", "with", "update", "with_inplace"]
_SP = {}


def sp_class(kind, how):
    key = (kind, how)
    if key not in _SP:
        from typing import Dict, List, Set

        from spec_classes import spec_class

        T = {"set": Set[int], "list": List[int], "dict": Dict[str, int]}[kind]
        f = SP_PREPARERS[how]
        ns = {"__annotations__": {"numbers": T, "tag": int}, "tag": 0, "_prepare_number": lambda self, n: f(n), "__module__": "vf.generated"}
        _SP[key] = spec_class(bootstrap=True)(type("SP", (), ns))
    return _SP[key]


def run_setprep(ctx, case):
    import itertools as _it

    kind, how, route, vals = case["setprep"], case["how"], case["route"], case["values"]
    cls = sp_class(kind, how)
    f = SP_PREPARERS[how]
    value = {"set": set(vals), "list": list(vals), "dict": {f"k{i}": v for i, v in enumerate(vals)}}[kind]
    want = {"set": {f(v) for v in vals}, "list": [f(v) for v in vals], "dict": {f"k{i}": f(v) for i, v in enumerate(vals)}}[kind]
    given = copy.deepcopy(value)
    try:
        if route == "ctor":
            obj = cls(numbers=value)
        elif route == "assign":
            obj = cls()
            obj.numbers = value
        elif route == "with":
            obj = cls().with_numbers(value)
        elif route == "with_inplace":
            obj = cls()
            obj.with_numbers(value, _inplace=True)
        else:
            obj = cls().update(numbers=value)
    except (TypeError, ValueError, KeyError, AttributeError) as e:
        ctx.fail(f"setprep|{kind}|{route}|raises:{type(e).__name__}", case, f"{route} with {value!r} raised {e!r}")
        return
    got = obj.numbers
    if got != want:
        ctx.fail(f"setprep|{kind}|{route}|stored", case, f"{route} with {given!r} and element preparer {how}: stored {got!r}, expected {want!r} (every element prepared exactly once)")
        return
    if value != given:
        ctx.fail(f"setprep|{kind}|{route}|argument_changed", case, f"the caller's {given!r} became {value!r}")
        return
    ctx.case(case, len(vals) >= 2 and any(f(v) in vals for v in vals))


def setprep_cases():
    import itertools as _it

    for kind in ("set", "list", "dict"):
        for how in SP_PREPARERS:
            for route in SP_ROUTES:
                for n in range(0, 4):
                    for vals in (_it.combinations([0, 1, 2, 3, -1], n) if kind == "set" else _it.product([0, 1, 2, -1], repeat=min(n, 3))):
                        yield {"setprep": kind, "how": how, "route": route, "values": list(vals)}


def units(tier, seed):
    return [["hyp", i] for i in range(BOUNDS[tier]["units"])] + [["setprep"]]


def run_unit(ctx, unit):
    b = BOUNDS[ctx.tier]
    if unit[0] == "setprep":
        for case in setprep_cases():
            run_setprep(ctx, case)
        ctx.count("setprep_completed")
        return
    run_given(ctx, lambda case: run_case(ctx, case), {"case": case_strategy()}, b["examples"], ctx.seed * 1000 + unit[1])


def replay(ctx, case):
    if "setprep" in case:
        return run_setprep(ctx, case)
    run_case(ctx, case)
