"""
Sensitivity self-test: apply a patch to a scratch copy of /repo (outside /repo
and /verif), run a check against it, expect exit 1, delete the copy.

  python vf/selftest.py <ID> <patch.diff> [--tier quick] [--seed N]
  python vf/selftest.py --all [--tier quick]      # every mutants/<ID>/*.patch and seeded/<ID>*/patch.diff
"""
import argparse
import glob
import json
import os
import shutil
import subprocess
import sys
import tempfile
import time

HERE = os.path.dirname(os.path.dirname(os.path.abspath(__file__)))
REPO = os.environ.get("VF_REPO_SRC", "/repo")


def run_one(prop, patch, tier="quick", seed="1", keep_out=False):
    scratch = tempfile.mkdtemp(prefix="vfmut_", dir=os.environ.get("VF_SCRATCH", "/tmp"))
    repo = os.path.join(scratch, "repo")
    out = os.path.join(scratch, "out")
    try:
        shutil.copytree(REPO, repo, ignore=shutil.ignore_patterns(".git", "__pycache__", "docsite", "*.pyc"))
        r = subprocess.run(["patch", "-p1", "-s", "--no-backup-if-mismatch", "-i", os.path.abspath(patch)], cwd=repo, capture_output=True, text=True)
        if r.returncode != 0:
            return {"prop": prop, "patch": patch, "status": "patch-failed", "detail": (r.stdout + r.stderr)[-500:]}
        env = dict(os.environ, VF_REPO=repo, VF_OUT=out, VERIF_SEED=str(seed))
        t0 = time.time()
        r = subprocess.run([os.path.join(HERE, "check"), prop, "--tier", tier], env=env, capture_output=True, text=True)
        wall = time.time() - t0
        viol = [l for l in r.stdout.splitlines() if l.startswith("VIOLATION")]
        status = {0: "MISSED", 1: "killed", 2: "harness-error"}.get(r.returncode, f"exit{r.returncode}")
        return {"prop": prop, "patch": patch, "status": status, "wall": round(wall, 1), "violations": [v[:260] for v in viol[:3]],
                "stderr": r.stderr[-600:] if r.returncode == 2 else ""}
    finally:
        shutil.rmtree(scratch, ignore_errors=True)


def main():
    ap = argparse.ArgumentParser()
    ap.add_argument("prop", nargs="?")
    ap.add_argument("patch", nargs="?")
    ap.add_argument("--all", action="store_true")
    ap.add_argument("--tier", default="quick")
    ap.add_argument("--seed", default="1")
    ap.add_argument("--only")
    ns = ap.parse_args()
    jobs = []
    if ns.all:
        for p in sorted(glob.glob(os.path.join(HERE, "mutants", "*", "*.patch"))):
            jobs.append((os.path.basename(os.path.dirname(p)), p))
        for p in sorted(glob.glob(os.path.join(HERE, "seeded", "*", "patch.diff"))):
            meta = json.load(open(os.path.join(os.path.dirname(p), "meta.json")))
            if meta.get("neutralised_by"):
                continue  # a later fix: commit made this change harmless (kept for the record, no longer a violation)
            for prop in meta.get("checked_by", [meta["property"]]):
                jobs.append((prop, p))
        if ns.only:
            jobs = [j for j in jobs if j[0] == ns.only]
    else:
        jobs.append((ns.prop, ns.patch))
    bad = 0
    for prop, patch in jobs:
        r = run_one(prop, patch, ns.tier, ns.seed)
        meta_path = os.path.join(os.path.dirname(patch), "meta.json")
        known = json.load(open(meta_path)).get("known_missed") if os.path.exists(meta_path) else None
        if known and r["status"] == "MISSED":
            r["status"] = "MISSED-known"  # documented in DESIGN.md section 10 / seeded/NOTES.md: a shape the generators do not produce
            r["why"] = known
        print(json.dumps(r), flush=True)
        if r["status"] not in ("killed", "MISSED-known"):
            bad += 1
    return 1 if bad else 0


if __name__ == "__main__":
    sys.exit(main())
