"""
C07 - frozen instances are immutable yet still evolvable by copy.

Differential oracle: every generated class world is built twice - once with frozen=True on the
class under test (directly, on a parent, or on a nested child class) and once without (the
twin). The same history runs in lock-step on both:
  (1) every frozen instance ever created is snapshotted and must stay unchanged forever;
  (2) in-place operations on a frozen instance raise FrozenInstanceError and change nothing;
  (3) copy-on-write operations return a distinct instance and otherwise behave exactly as
      on the twin (same resulting state, or the same exception class).
"""
from __future__ import annotations

import copy

from hypothesis import strategies as st

from vf import grammar, ops
from vf.props.common import op_route
from vf.runner import run_given
from vf.snapshot import Snapshot, diff

ID = "C07"
LEVEL = "exploration"
RULE = (
    "cases = (generated class world, where frozen=True is put on the main class / on its spec parent (inherited, also through spec and plain "
    "subclasses) / on the nested child class held by a non-frozen parent; lock-step history of <= 12 ops on the frozen world and its non-frozen "
    "twin: assignment, deletion, every helper with and without _inplace, deepcopy, nested updates through the parent). In-place ops are tried on a "
    "scratch copy of the twin; copy ops are adopted on both sides. Non-trivial = the history contains a successful copy-on-write op on a frozen "
    "instance whose twin's state changed, and an in-place attempt; distinct = canonical JSON of the case."
)
ASSUMPTIONS = [
    "an in-place op that is a state no-op on the twin (_if=False, UNCHANGED, MISSING keyword, element helper on a missing container) may return the frozen receiver without raising",
    "when the twin raises (bad value, missing target) the frozen side may raise that class or FrozenInstanceError; nothing may change either way",
    "deepcopy(frozen) is only required to be equal, not distinct",
    "children of a frozen instance that are themselves not frozen are not edited directly (deep immutability is not claimed)",
]


@st.composite
def case_strategy(draw):
    src = grammar.HypSource(draw)
    # (init=False attributes were left out here until the repository fix that gives every instance its own copy of their
    # default: before it, an in-place element helper tried on the twin edited the shared class-level object.)
    wd = grammar.gen_world(src, dict(grammar.PROFILES["data_plain"], flags=True, prop_override=True))
    names = [c["name"] for c in wd["classes"]]
    modes = ["self", "self", "child"]
    if "P" in names:
        modes.append("parent")
    mode = src.pick(modes)
    info = grammar.world_info(wd)
    hist = [ops.gen_new(src, info)]
    if src.chance(1, 5):
        wd["post_copy"] = "counting"  # M.__post_copy__ assigns an (unmanaged) attribute on every copy, as in the documentation
    dnc_class = mode == "self" and src.chance(1, 8)  # frozen=True together with do_not_copy=True (class level)
    twin_copy = mode in ("self", "parent") and src.chance(1, 6) and not dnc_class
    if twin_copy:
        next(c for c in wd["classes"] if c["name"] == "M")["post_init_deepcopy"] = True
    for _ in range(src.choice(13)):
        if twin_copy and src.chance(1, 4):
            # in-place attempt on the copy that __post_init__ took of the instance under construction
            sub = ops.gen_op(src, info, inplace=True, bad_rate=(0, 1), allow=("scalar", "element"))
            hist.append({"t": "nested", "path": [["attr", "twin"]], "op": sub})
            continue
        hist.append(ops.gen_op(src, info, inplace=None, bad_rate=(1, 6), allow=("scalar", "element", "top", "deepcopy", "unmanaged") + (("nested",) if mode == "child" else ())))
    for c in wd["classes"]:
        for name in (c.get("prop_override") or {}):
            # the attribute an undecorated subclass turned into a setter-backed property: evolve it by copy (and try in place)
            for _ in range(1 + src.choice(2)):
                verb = src.pick(["with", "update", "transform"])
                arg = ["$fn", "inc", 0] if verb == "transform" else src.pick([5, 0, -2])
                hist.insert(1 + src.choice(len(hist)), {"t": "call", "m": f"{verb}_{name}", "a": [arg], "k": {"_inplace": src.chance(1, 4)}, "adopt": src.chance(1, 2)})
    case = {"world": wd, "mode": mode, "ops": hist}
    if dnc_class:
        case["dnc_class"] = True
    return case


def freeze(wd, mode, on):
    wd = copy.deepcopy(wd)
    for c in wd["classes"]:
        if (mode == "self" and c["name"] == "M") or (mode == "parent" and c["name"] == "P") or (mode == "child" and c["name"] in ("U", "N")):
            c["opts"]["frozen"] = bool(on)
    return wd


def frozen_instances(world_f, obj, out, seen):
    if id(obj) in seen:
        return
    seen.add(id(obj))
    if hasattr(obj, "__spec_class__") and hasattr(obj, "__dict__"):
        # frozen-ness is decided from the descriptor (what was declared), never from library metadata
        if type(obj).__name__ in world_f.expected_frozen and not any(x is obj for x in out):
            out.append(obj)
        for v in object.__getattribute__(obj, "__dict__").values():
            frozen_instances(world_f, v, out, seen)
    elif isinstance(obj, (list, tuple, set)):
        for v in obj:
            frozen_instances(world_f, v, out, seen)
    elif isinstance(obj, dict):
        for v in obj.values():
            frozen_instances(world_f, v, out, seen)
    elif hasattr(obj, "_dict") and hasattr(obj, "_key"):
        for v in obj._dict.values():
            frozen_instances(world_f, v, out, seen)


def run_case(ctx, case):
    from spec_classes.errors import FrozenInstanceError

    mode = case["mode"]
    wdf = freeze(case["world"], mode, True)
    if case.get("dnc_class"):
        # a class that may neither be copied nor be changed: a helper that would change state can only refuse (or hand back a real
        # copy). The twin is the ordinary class (not frozen, copied as usual): it says what the state after the call would be.
        next(c for c in wdf["classes"] if c["name"] == "M")["opts"]["do_not_copy"] = True
    wf = grammar.build_world(wdf)
    wn = grammar.build_world(freeze(case["world"], mode, False))
    wf.expected_frozen = {"U", "N"} if mode == "child" else ({"M", "Q", "R"} | ({"P"} if mode == "parent" else set()))
    hist = case["ops"]
    try:
        cf = ops.construct(wf, hist[0])
    except ops.CLEAN as e:
        ef = e
        cf = None
    try:
        cn = ops.construct(wn, hist[0])
    except ops.CLEAN as e:
        en = e
        cn = None
    if cf is None or cn is None:
        if (cf is None) != (cn is None):
            ctx.fail("new|constructor_differs", case, f"constructor: frozen side {'raised ' + repr(ef) if cf is None else 'ok'}, twin {'raised ' + repr(en) if cn is None else 'ok'}")
            return
        ctx.case(case, False)
        return
    if Snapshot(cf).structure() != Snapshot(cn).structure():
        ctx.fail("new|state_differs", case, "freshly constructed frozen instance differs from its twin")
        return
    frozen_live, snaps = [], []

    def register(obj):
        found = []
        frozen_instances(wf, obj, found, set())
        for x in found:
            if not any(x is y for y in frozen_live):
                frozen_live.append(x)
                snaps.append(Snapshot(x))

    register(cf)
    # (class-level do_not_copy is not inherited by decorated subclasses - documented: "we always reset this" - only by plain ones)
    dnc_effective = bool(case.get("dnc_class")) and case["world"]["instance_class"] in ("M", "Q")
    receiver_frozen = type(cf).__name__ in wf.expected_frozen
    saw_copy_change = saw_inplace = False
    for i, op in enumerate(hist[1:], 1):
        route = op_route(wf, op)
        target_frozen = receiver_frozen
        if op["t"] == "nested":
            try:
                t = ops.locate(cf, op["path"])
                target_frozen = type(t).__name__ in wf.expected_frozen
            except Exception:
                target_frozen = False
        inplace = ops.is_inplace(op)
        if inplace and not receiver_frozen and op["t"] != "nested":
            # in-place op on the non-frozen parent (mode "child"): plain lock-step
            of, vf_ = ops.execute(wf, cf, op)
            on, vn = ops.execute(wn, cn, op)
            if not _same_outcome(ctx, case, i, op, route, of, vf_, on, vn, FrozenInstanceError, allow_frozen=False):
                return
        elif inplace:
            saw_inplace = saw_inplace or target_frozen
            scratch = copy.deepcopy(cn)
            before_n = Snapshot(scratch).structure()
            on, vn = ops.execute(wn, scratch, op)
            changed_n = Snapshot(scratch).structure() != before_n
            of, vf_ = ops.execute(wf, cf, op)
            if on == "skip" or of == "skip":
                continue
            if not target_frozen:
                # editing a non-frozen child in place is allowed; keep the twin in step
                ops.execute(wn, cn, op)
            elif of == "ok":
                if changed_n or on == "raise":
                    ctx.fail(f"{route}|inplace_not_refused", case,
                             f"step {i} in-place {op} on a frozen instance did not raise (twin: {'state changed' if changed_n else 'raised ' + type(vn).__name__})")
                    return
            elif not isinstance(vf_, FrozenInstanceError):
                if on == "ok":
                    ctx.fail(f"{route}|inplace_wrong_exception:{type(vf_).__name__}", case,
                             f"step {i} in-place {op} on a frozen instance raised {vf_!r}; expected FrozenInstanceError (the twin accepts it)")
                    return
                if type(vf_).__name__ != type(vn).__name__:
                    ctx.fail(f"{route}|inplace_wrong_exception:{type(vf_).__name__}", case,
                             f"step {i} in-place {op}: frozen side raised {vf_!r}, twin raised {vn!r}")
                    return
        else:
            before_n = Snapshot(cn).structure()
            of, vf_ = ops.execute(wf, cf, op)
            on, vn = ops.execute(wn, cn, op)
            if dnc_effective and receiver_frozen and of == "raise" and on == "raise" and isinstance(vf_, FrozenInstanceError):
                # both sides refuse (the frozen guard may come before the twin's own reason, e.g. an ill-typed value)
                ctx.count("dnc_frozen:both_refuse")
                continue
            if dnc_effective and receiver_frozen and op["t"] == "deepcopy":
                if of != "ok" or vf_ is not cf:
                    ctx.fail("deepcopy|dnc_not_identity", case, f"step {i}: deepcopy of a do_not_copy=True instance must be the instance itself (got {of} {vf_!r})")
                    return
                continue
            if dnc_effective and receiver_frozen and on == "ok" and hasattr(vn, "__spec_class__"):
                # (deepcopy of a do_not_copy=True instance is the instance itself, by documented design)
                # (the tally kept by a counting __post_copy__ hook is not a change the call asked for)
                def no_tally(st):
                    return (st[0], [kv for kv in st[1] if kv[0] != "copy_count"]) if isinstance(st, tuple) and len(st) == 2 and isinstance(st[1], list) else st

                would_change = no_tally(Snapshot(vn).structure()) != no_tally(Snapshot(cn).structure())
                if of == "raise" and isinstance(vf_, FrozenInstanceError) and would_change:
                    ctx.count("dnc_frozen:refused")
                elif of == "ok" and vf_ is cf and would_change:
                    # (the snapshot check below reports the change itself; this names the cause)
                    ctx.fail(f"{route}|dnc_frozen_returned_receiver", case, f"step {i} {op} on a frozen do_not_copy=True instance returned the receiver although the call changes state")
                    return
                elif of == "raise" and would_change:
                    ctx.fail(f"{route}|dnc_frozen_wrong_exception:{type(vf_).__name__}", case, f"step {i} {op}: {vf_!r}")
                    return
                # the frozen side stays where it is; the twin does too
                for obj, s_ in zip(frozen_live, snaps):
                    if s_.identity_form() != Snapshot(obj).identity_form():
                        ctx.fail(f"{route}|frozen_instance_changed", case, f"step {i} {op} changed a frozen {type(obj).__name__} instance: {diff(s_, obj)}")
                        return
                continue
            if not _same_outcome(ctx, case, i, op, route, of, vf_, on, vn, FrozenInstanceError, allow_frozen=False):
                return
            if of == "ok" and hasattr(vf_, "__spec_class__") and isinstance(vf_, type(cf)):
                if (vf_ is cf) != (vn is cn) and op["t"] != "deepcopy":
                    ctx.fail(f"{route}|copy_identity", case,
                             f"step {i} {op}: frozen side returned {'the receiver' if vf_ is cf else 'a copy'}, twin returned {'the receiver' if vn is cn else 'a copy'}")
                    return
                if receiver_frozen and vf_ is not cf and Snapshot(vn).structure() != before_n:
                    saw_copy_change = True
                register(vf_)
                if op.get("adopt") and vf_ is not cf:
                    cf, cn = vf_, vn
        # (1) no frozen instance ever changes
        for obj, s in zip(frozen_live, snaps):
            if s.identity_form() != Snapshot(obj).identity_form():
                ctx.fail(f"{route}|frozen_instance_changed", case, f"step {i} {op} changed a frozen {type(obj).__name__} instance: {diff(s, obj)}")
                return
        # the two worlds stay in step
        if Snapshot(cf).structure() != Snapshot(cn).structure():
            ctx.fail(f"{route}|state_differs", case, f"step {i} {op}: frozen side state differs from the twin's")
            return
        ctx.count(f"{'inplace' if inplace else 'copy'}:{mode}")
    ctx.case(case, saw_copy_change and saw_inplace)


def _same_outcome(ctx, case, i, op, route, of, vf_, on, vn, FrozenInstanceError, allow_frozen):
    if of == "skip" or on == "skip":
        return True
    if of != on:
        exc = type(vf_).__name__ if of == "raise" else type(vn).__name__
        ctx.fail(f"{route}|copy_outcome_differs:{exc}", case,
                 f"step {i} {op}: frozen side {'raised ' + repr(vf_) if of == 'raise' else 'returned'}, twin {'raised ' + repr(vn) if on == 'raise' else 'returned'}")
        return False
    if of == "raise" and type(vf_).__name__ != type(vn).__name__:
        ctx.fail(f"{route}|copy_exception_differs:{type(vf_).__name__}", case, f"step {i} {op}: frozen side raised {vf_!r}, twin raised {vn!r}")
        return False
    if of == "ok" and hasattr(vf_, "__spec_class__") and hasattr(vn, "__spec_class__"):
        if Snapshot(vf_).structure() != Snapshot(vn).structure():
            ctx.fail(f"{route}|copy_state_differs", case, f"step {i} {op}: result on the frozen side differs from the twin's result")
            return False
    return True


BOUNDS = {"quick": dict(examples=350, units=16), "thorough": dict(examples=3500, units=16)}


# ---------------------------------------------------------------------------
# frozen "by inheritance" with two spec bases: whichever base is declared frozen, and in whichever order they are listed

MB_OPS = ["set_a", "set_b", "set_c", "del_a", "with_a_inplace", "with_b_inplace", "update_inplace", "reset_inplace", "with_a", "with_c", "deepcopy"]


def mb_cases():
    for frozen_base in ("A", "B"):
        for order in ("AB", "BA"):
            for child in ("spec",):  # (an undecorated class over two spec bases only has the first base's metadata and constructor)
                for eager in (True, False):
                    for op in MB_OPS:
                        yield {"multibase": {"frozen_base": frozen_base, "order": order, "child": child, "eager": eager}, "op": op}
                        yield {"multibase": {"frozen_base": frozen_base, "order": order, "child": child, "eager": eager, "via_plain": True}, "op": op}


def run_multibase(ctx, case):
    import copy as _copy

    from spec_classes import spec_class
    from spec_classes.errors import FrozenInstanceError

    cfg, op = case["multibase"], case["op"]

    def mk(name, attr, default, frozen):
        opts = {"bootstrap": cfg["eager"]}
        if frozen:
            opts["frozen"] = True
        return spec_class(**opts)(type(name, (), {"__annotations__": {attr: int}, attr: default, "__module__": "vf.generated"}))

    A = mk("A", "a", 1, cfg["frozen_base"] == "A")
    B = mk("B", "b", 2, cfg["frozen_base"] == "B")
    if cfg.get("via_plain"):
        # the frozen spec base is reached only through an undecorated intermediate class
        if cfg["frozen_base"] == "A":
            A = type("MidA", (A,), {"__module__": "vf.generated"})
        else:
            B = type("MidB", (B,), {"__module__": "vf.generated"})
    bases = (A, B) if cfg["order"] == "AB" else (B, A)
    ns = {"__module__": "vf.generated"}
    if cfg["child"] == "spec":
        ns.update({"__annotations__": {"c": int}, "c": 3})
    C = type("C", bases, ns)
    if cfg["child"] == "spec":
        C = spec_class(bootstrap=cfg["eager"])(C)  # `frozen` not specified: inherited
    obj = C()
    before = dict(object.__getattribute__(obj, "__dict__"))
    inplace = not op.startswith(("with_a", "with_c", "deepcopy")) or op.endswith("_inplace")
    if op == "with_c" and cfg["child"] != "spec":
        ctx.case(case, False)
        return
    try:
        res = {
            "set_a": lambda: setattr(obj, "a", 5), "set_b": lambda: setattr(obj, "b", 5), "set_c": lambda: setattr(obj, "c", 5),
            "del_a": lambda: delattr(obj, "a"), "with_a_inplace": lambda: obj.with_a(6, _inplace=True), "with_b_inplace": lambda: obj.with_b(6, _inplace=True),
            "update_inplace": lambda: obj.update(a=7, _inplace=True), "reset_inplace": lambda: obj.reset(_inplace=True),
            "with_a": lambda: obj.with_a(8), "with_c": lambda: obj.with_c(8), "deepcopy": lambda: _copy.deepcopy(obj),
        }[op]()
        raised = None
    except FrozenInstanceError as e:
        res, raised = None, e
    after = dict(object.__getattribute__(obj, "__dict__"))
    if after != before:
        ctx.fail(f"multibase|{op}|frozen_instance_changed", case, f"{op} on an instance of C{cfg['order']} (frozen base {cfg['frozen_base']}) changed it: {before} -> {after}")
        return
    if inplace and raised is None:
        ctx.fail(f"multibase|{op}|not_refused", case, f"{op} on an instance of a class with a frozen spec base was not refused")
        return
    if not inplace:
        if raised is not None or res is obj or not isinstance(res, C):
            ctx.fail(f"multibase|{op}|copy_form_broken", case, f"{op}: raised {raised!r}, result {res!r}")
            return
    ctx.case(case, cfg["frozen_base"] != cfg["order"][0])


def units(tier, seed):
    return [["hyp", i] for i in range(BOUNDS[tier]["units"])] + [["multibase"]]


def run_unit(ctx, unit):
    b = BOUNDS[ctx.tier]
    if unit[0] == "multibase":
        for case in mb_cases():
            run_multibase(ctx, case)
        ctx.count("multibase_completed")
        return
    run_given(ctx, lambda case: run_case(ctx, case), {"case": case_strategy()}, b["examples"], ctx.seed * 1000 + unit[1])


def replay(ctx, case):
    if "multibase" in case:
        return run_multibase(ctx, case)
    run_case(ctx, case)
